"""C08 — handshake payload encoding is lossless and wire-compatible (spec/PayloadWire.tla, vector mode + observations)."""
import json, os

RULE = ("V: every sequence of protobuf wire tokens (level, field number, wire type, value symbol, truncation) of length <= 3 "
        "over PayloadWire.tla's alphabet (25 token kinds quick / 64 thorough: every known field with right and wrong wire "
        "types, the boundary values 0, 1, 2^32-1, 2^32, 2^64-1 as symbols, Cookie/Hmac/reserved/unknown fields of every wire "
        "type incl. groups, truncated tags / varints / lengths / groups at both nesting levels) plus every sequence of length "
        "4 (4..5 thorough) over a 10-kind core alphabet (thorough also: length 4 over the 25-kind alphabet), plus the payload "
        "lattice (405 payloads) is one TLC state; TLC checks "
        "the link (decoder machine on both Details groupings = last-wins reference), Decode(Encode(p)) = p and four more laws "
        "on each and emits the expected result; every sequence is serialised with protowire in up to 4 concretisations "
        "(Details grouped / one per token / random split, minimal and padded varints) and decoded by the real "
        "UnmarshalPayload, by google.golang.org/protobuf from the schema in handshake/handshake.proto and by gogo/protobuf "
        "from the message structs of the older generated code; every payload is encoded by all three encoders and "
        "cross-decoded by all three decoders. T: seeded random payloads (full-width values, certificates up to 16 kB) through "
        "the same 3x3 matrix, and random token sequences of length 1..12 with full-width values judged by TLC "
        "(Trace_PayloadWire.tla); distinct = distinct vectors")
ASSUMPTIONS = [
    "the tree has no generated NebulaHandshake code any more (nebula.proto only points to handshake/handshake.proto, which is "
    "not run through protoc): 'the protobuf schema other nebula versions use' is bound to two schema-driven decoders instead - "
    "google.golang.org/protobuf (dynamicpb) on the descriptor parsed out of handshake/handshake.proto at run time, and "
    "gogo/protobuf (the library of the older generated code) on structs carrying the generated struct tags",
    "'known fields' = the fields the payload carries (Details.Cert/InitiatorIndex/ResponderIndex/Time/CertVersion) and the "
    "Details field of the envelope; Cookie (4) and Hmac (2) are in the schema but are not carried: the decoder may skip them "
    "whatever their wire type (handshake.proto says so for Cookie), and a message carrying them with the wrong wire type is "
    "not a 'well-formed schema message' (no agreement with the schema decoders is demanded there)",
    "'well-formed schema message' = no truncation, every field of the schema has its schema wire type, uint32 fields are "
    "below 2^32; unknown and reserved field numbers of any wire type (incl. closed groups) are allowed",
    "a refused message is compared on refusal only (the partially filled Payload returned with the error is not part of the "
    "statement); nil and empty certificates are the same value; encodings are compared by what every decoder reads, never "
    "byte by byte",
    "not modelled: stray end-group tags, field number 0, wire types 6/7, varints longer than 10 bytes, arbitrary bytes (only "
    "a panic on a structured vector is reported)",
]


def run(ctx):
    from tools.check import MachineryError
    spec = ctx.spec_dir()
    cfg = open(spec + '/Vec_PayloadWire.cfg').read()
    na = ctx.tlc_vectors('PayloadWire', 'Vec_PayloadWire_alphabet.cfg', out='alphabet.ndjson', sample=1)
    if ctx.quick:
        n = ctx.tlc_vectors('PayloadWire', 'Vec_PayloadWire_run.cfg', cfgtext=cfg, timeout=2400)
    else:
        # two runs (bounds the memory of the dump parser): full alphabet up to length 3 + core alphabet at lengths 4..5 +
        # the payload lattice; then the quick alphabet at length 4
        n = ctx.tlc_vectors('PayloadWire', 'Vec_PayloadWire_run.cfg', timeout=2400,
                            cfgtext=cfg.replace('Alpha = "quick"', 'Alpha = "full"').replace('SmallLens = {4}', 'SmallLens = {4, 5}'))
        n += ctx.tlc_vectors('PayloadWire', 'Vec_PayloadWire_run2.cfg', out='vectors_2.ndjson', timeout=2400, sample=1,
                             cfgtext=cfg.replace('Lens = {0, 1, 2, 3}', 'Lens = {4}').replace('SmallLens = {4}', 'SmallLens = {}')
                             .replace('Lattice = TRUE', 'Lattice = FALSE'))
    ctx.extra['vectors'] = n
    ctx.extra['alphabet'] = na
    res = ctx.gotest('handshake', 'TestVerif_C08', timeout=1800)
    if res.get('_rc'):
        raise MachineryError('harness failed: %s' % res.get('_stdout', '')[-2000:])
    ctx.take_mismatches(res)
    ctx.traces += n
    trouble = (res.get('extra') or {}).get('spec_vs_protobuf_libraries') or []

    # T: the random token sequences, judged by the reference layer
    obs = {}
    with open(os.path.join(res['_outdir'], 'obs.ndjson')) as f, open(os.path.join(spec, 'obs.ndjson'), 'w') as g:
        for line in f:
            o = json.loads(line)
            obs[o['k']] = o
            g.write(json.dumps({k: o[k] for k in ('k', 'toks', 'ok', 'idx', 'sok', 'sagree')}, separators=(',', ':')) + '\n')
    m = ctx.tlc_vectors('Trace_PayloadWire', 'Trace_PayloadWire.cfg', out='verdicts.ndjson', sample=1, timeout=1200)
    if m != len(obs):
        raise MachineryError('Trace_PayloadWire judged %d of %d observations' % (m, len(obs)))
    ctx.traces += m
    classes = {'accept': 0, 'refuse': 0, 'wellformed': 0}
    with open(os.path.join(ctx.scratch, 'verdicts.ndjson')) as f:
        for line in f:
            v = json.loads(line)['exp']
            o = obs[v['k']]
            classes['accept' if v['specok'] else 'refuse'] += 1
            classes['wellformed'] += 1 if v['wf'] else 0
            what = 'tokens %s -> message %s: UnmarshalPayload ok=%s %s' % (
                [(t['lvl'], t['f'], t['wt'], t['v'], t['tr'], x) for t, x in zip(o['toks'], o['vals'])], o['msg'][:400],
                o['ok'], o['got'])
            if not v['okmatch']:
                # (same keys as the vector mode: one defect, one key)
                if v['specok']:
                    ctx.violation('decode:refused:' + ('well-formed-schema-message' if v['wf'] else 'valid'),
                                  '[random] the specification accepts; ' + what, o)
                else:
                    ctx.violation('decode:accepted:' + v['why'], '[random] the specification refuses (%s); %s' % (v['why'], what), o)
            elif not v['idxmatch']:
                names = ('Cert', 'InitiatorIndex', 'ResponderIndex', 'Time', 'CertVersion')
                bad = [names[i] for i in range(5) if o['idx'][i] != v['want'][i]]
                ctx.violation('decode:field:' + bad[0], '[random] %s is not the value of its last token (value of token %s '
                              'reported, last token is %s); %s' % (bad[0], o['idx'], v['want'], what), o)
            elif not (v['schema'] and v['schemaok']):
                trouble.append('random well-formed message: the schema decoders disagree although UnmarshalPayload follows '
                               'the specification: %s; %s' % (o.get('schema'), what))
    ctx.extra['random_sequence_classes'] = classes
    if trouble and not ctx.violations:
        raise MachineryError('the specification and the protobuf libraries disagree on well-formed messages (specification '
                             'or harness out of date, not a verdict about nebula):\n' + '\n'.join(trouble[:5]))
    if not ctx.violations:
        ctx.require_actions('enc', 'dec:accept', 'dec:refuse:wiretype', 'dec:refuse:range', 'dec:refuse:truncated',
                            'differential', 'T:payload', 'T:sequence')
        if not (classes['accept'] and classes['refuse'] and classes['wellformed']):
            raise MachineryError('random token sequences are one-sided: %s' % classes)


META = {
    'category': 'model_checking',
    'technique': 'TLA+ function specification PayloadWire.tla: protobuf wire tokens with symbolic boundary values; reference '
                 '(refused iff a bad token exists, else every field from its last token), implementation-shaped decoder '
                 'machine (envelope loop, Details loop mutating one payload), link + round-trip + prefix/skip/last-wins laws '
                 'checked by TLC on every vector; vectors concretised with protowire on UnmarshalPayload/MarshalPayload and '
                 'two schema-driven protobuf libraries; random full-width sequences judged by TLC',
    'text': 'Every token sequence up to the bound is decoded by the real UnmarshalPayload under several byte-level '
            'concretisations and must be accepted/refused exactly as the reference says, with every field equal to its last '
            'occurrence; on well-formed schema messages the result must equal what google.golang.org/protobuf (schema parsed '
            'from handshake.proto) and gogo/protobuf read; MarshalPayload output must be read identically by both schema '
            'decoders and schema-encoded payloads by UnmarshalPayload.',
    'design_ref': '3.2 C08',
    'note': 'Bounded: sequences of <= 3 tokens over the full alphabet (<= 5 over the core alphabet), symbolic values; the random '
            'driver covers longer sequences and full-width values but samples. Arbitrary (unstructured) bytes are not covered.',
}
