"""C37 — remote address lists are de-duplicated and deterministically ordered (spec/RemoteList.tla)."""
import json, os

RULE = ("V: every vector of RemoteList.tla (population over 8 abstract addresses + a 4-in-6 alias x 2 ports x 2 owners x "
        "learned/reported/dns/blocked/relays/preferred-range menus, rebuild, one change, rebuild; owner shapes {nothing, static "
        "v4 only, v6 only, 4-in-6, both, learned only, relays only, lighthouse message, mixtures} x the other owner's shape with "
        "a rebuild after every call, ResetForOwner, re-report, reset of the other owner; static hosts: initial static_host_map "
        "and two reloads with replaced/removed literals through a real LightHouse configuration reload) executed on a real "
        "RemoteList; CopyAddrs/ForEach/Len/relays compared with the reference lists; distinct = distinct vectors. "
        "T: seeded random call sequences over random concrete addresses (harness computes the attribute table), every "
        "recorded list validated by TLC against the reference (Trace_RemoteList.tla)")
ASSUMPTIONS = [
    "'minus blocked ones' is read at the time of the rebuild: after the blocked list is cleared (RefreshFromHandshake / "
    "ResetBlockedRemotes) the formerly blocked addresses belong to the list again (key *:stale-after-unblock / trace:rebuild:after-unblock)",
    "relays: de-duplicated union, ascending by address inside an address family; the statement does not say which family "
    "comes first, so only the stability of that arrangement is checked",
    "'private IPv4' = RFC1918; 100.64/10 and IPv6 ULA are not split off; a 4-in-6 mapped spelling is the same address as its IPv4 form",
    "the cap of 10 reported entries per owner and family is part of the cache model here (it is C36's property)",
]
DIRTYING = {'rep', 'learn', 'relay', 'prepend', 'reset', 'dns', 'block'}


def run(ctx):
    cfg = open(os.path.join(ctx.spec_dir(), 'Vec_RemoteList.cfg')).read()
    if not ctx.quick:
        cfg = cfg.replace('Thorough = FALSE', 'Thorough = TRUE')
    n = ctx.tlc_vectors('RemoteList', 'Vec_RemoteList_run.cfg', cfgtext=cfg, timeout=1500, workers=2)
    ctx.extra['vectors'] = n
    res = ctx.gotest('.', 'TestVerif_C37')
    if res['_rc'] != 0:
        from tools.check import MachineryError
        raise MachineryError('harness failed:\n' + res['_stdout'][-3000:])
    ctx.take_mismatches(res)
    ctx.traces += n
    for name in ('trace_a', 'trace_b'):
        fails, ok = ctx.validate_traces('Trace_RemoteList', 'Trace_RemoteList.cfg',
                                        os.path.join(res['_outdir'], name + '.ndjson'), max_fail=2)
        ctx.traces += ok
        for fl in fails:
            ln = fl['line']
            key = 'trace:%s' % ln.get('ev')
            tr = fl.get('trace') or fl.get('context') or []
            # a rebuild that follows a clearing of the blocked list with no change of the population in between
            after_unblock = False
            for e in tr[:-1]:
                if e.get('ev') == 'op':
                    if e['op'][0] == 'unblock':
                        after_unblock = True
                    elif e['op'][0] in DIRTYING:
                        after_unblock = False
            if ln.get('ev') == 'rebuild' and after_unblock:
                key += ':after-unblock'
            # a rebuild that follows a ResetForOwner (no other rebuild in between)
            after_reset = False
            for e in tr[:-1]:
                if e.get('ev') == 'rebuild':
                    after_reset = False
                elif e.get('ev') == 'op' and e['op'][0] == 'reset':
                    after_reset = True
            ctx.violation(key, 'recorded call %s is not a behaviour of RemoteList.tla (reference lists differ)%s' %
                          (json.dumps(ln), ' [first rebuild after a ResetForOwner]' if ln.get('ev') == 'rebuild' and after_reset else ''), fl)
    if not ctx.violations:      # a violation ends its history early; it is a verdict by itself
        ctx.require_actions('rep', 'learn', 'relay', 'dns', 'block', 'unblock', 'reset', 'prepend', 'rebuild',
                        'rebuild-after-unblock', 'static',
                        # ResetForOwner on every shape of owner (RemoteList.tla, Shape): absent, static host with IPv4 / IPv6 / both
                        # kinds of literals (only the needed per-family cache exists), lighthouse message with IPv6 only,
                        # learned only, relays only, learned + reported in the same family
                        'reset:rep-none.cache-none.lrn-none.rly-no', 'reset:rep-v4.cache-v4.lrn-none.rly-no',
                        'reset:rep-v6.cache-v6.lrn-none.rly-no', 'reset:rep-v4v6.cache-v4v6.lrn-none.rly-no',
                        'reset:rep-v6.cache-v4v6.lrn-none.rly-no', 'reset:rep-none.cache-v4.lrn-v4.rly-no',
                        'reset:rep-none.cache-v6.lrn-v6.rly-no', 'reset:rep-none.cache-none.lrn-none.rly-yes',
                        'reset:rep-v6.cache-v6.lrn-v6.rly-no', 'T:reset', 'T:prepend', 'T:rebuild', 'T:rep', 'T:block', 'T:unblock', 'T:dns')


META = {
    'category': 'model_checking',
    'technique': 'TLA+ specification RemoteList.tla (reference: sorted de-duplicated set minus blocked; machine: collect / '
                 'sort / in-place de-duplication with the dirty flag; link checked by TLC on every vector); vectors executed '
                 'on a real RemoteList; recorded traces over random concrete addresses validated by TLC',
    'text': 'TLC enumerates populations and changes, checks that the implementation-shaped machine yields the reference list, '
            'and emits the expected CopyAddrs/relays after every rebuild; the harness runs the same calls on a real RemoteList '
            'and compares; beyond the lattice, random call sequences on random real addresses are recorded and each list is '
            'accepted or rejected by TLC against the reference.',
    'design_ref': '3.6 C37',
    'note': 'Concurrent use of one RemoteList is not exercised (single goroutine). IPv6 zones are not generated.',
}
