"""X01 — lighthouse discovery at system level (spec/Discovery.tla); development pipeline of tools/props/_disc.py.
Not a listed property: the same pipeline is registered as additional binding of C35 and C36."""
from tools.props import _disc

RULE = ("MC: in a closed small world (ordinary A, B; lighthouse L; hostile authenticated peer H; the environment proposes any "
        "lighthouse message of any type with any claimed address and any single change of any address table) the permission rules "
        "R3/R4 of Discovery.tla imply I1 (every held address has a permitted provenance chain ending at its owner or static "
        "config), I2 (a lighthouse caches for x only what x reported / was seen at), I3 (nothing a node is permitted to send goes "
        "to an unusable address) and that hostile messages grant no punch. T: seeded adversarial schedules on 6-7 complete nodes "
        "(discovery through the lighthouse, update notifications on virtual time, roaming, forged lighthouse messages of every "
        "type from H to nodes and lighthouses, a lying lighthouse, loss, duplication, reordering, closes); every step's address "
        "table with provenance, tunnels, pending handshakes and decoded emissions validated by TLC against R1..R6; distinct = traces")
ASSUMPTIONS = _disc.ASSUMPTIONS


def run(ctx):
    _disc.mc(ctx)
    res, tf = _disc.record(ctx)
    ctx.traces += _disc.validate(ctx, tf)
    if not ctx.violations:
        _disc.guards(ctx)


META = {
    'category': 'model_checking',
    'technique': 'TLA+ permission specification Discovery.tla (who may change which address-table slot on which authenticated '
                 'message, where handshakes/punches/lighthouse messages may go) checked by TLC to imply the provenance invariants; '
                 'traces of complete nodes incl. a hostile authenticated peer and a lying lighthouse in a synctest bubble, '
                 'lighthouse payloads decoded with the tunnel keys, validated step by step by TLC',
    'text': 'Every change of a node\'s underlay address table, every lighthouse message, handshake and punch datagram it emits '
            'and every handshake it starts, under discovery traffic, forged lighthouse messages of every type from an '
            'authenticated hostile peer, roaming, loss, duplication and reordering, must be a step the permission rules R1..R6 allow.',
    'design_ref': '3.6 C35 C36',
    'note': 'Permission (monitor) specification; one overlay address per node; no relays; trusts the projection of RemoteList caches.',
}
