"""C05 — a handshake completes only with an authenticated peer (spec/Handshake.tla).

This module also hosts what C06 and C07 share (same specification, same harness helpers `zz_verif_hs_test.go`):
configuration texts, the light state-graph loader (only the projection variable `obs` is parsed) and run_graphs().
"""
import json, os, re
from tools import tlaval, tours
from tools.check import MachineryError

ALL_OPS = ["id", "hdrflip", "short", "subtype", "hdr", "in_e", "after_e", "in_s", "after_s", "in_p",
           "flip_s", "flip_p", "idx", "sub_e", "bad_e", "splice_e", "splice_p"]
ALL_PK = ["full", "empty", "junk", "nocert", "noidx", "zeroidx", "keep", "swap"]   # keep/swap: complete certificate (own key / adversary's key embedded)
CERT_OPS = ["cert_keep", "cert_swap", "cert_strip"]   # certificate form surgery on a clear payload
ALL_ADV = ["M", "U", "X", "L", "K"]
INVARIANTS = "TypeOK C05_Auth C05_Secrecy C06_Agree C06_Exclusive C07_RejectClean"


def _set(xs):
    return '{' + ', '.join(('"%s"' % x) if isinstance(x, str) else str(x) for x in xs) + '}'


def cfg(HI=("I1",), HR=("R1",), AI=(), AR=(), adv=("M",), vcs=(1,), ops=("id",), pk=("full",), sk=("own",),
        misuse=False, impl="spec", budget=0, invariants=INVARIANTS, scns=("all",)):
    return ("SPECIFICATION Spec\nCONSTANTS\n  HI = %s\n  HR = %s\n  AI = %s\n  AR = %s\n  AdvIds = %s\n  VerCfgs = %s\n"
            "  Ops = %s\n  PKinds = %s\n  SKinds = %s\n  Misuse = %s\n  Scns = %s\n  Impl = \"%s\"\n  Budget = %d\n"
            "INVARIANTS %s\nCHECK_DEADLOCK FALSE\n" %
            (_set(HI), _set(HR), _set(AI), _set(AR), _set(adv), _set(vcs), _set(ops), _set(pk), _set(sk),
             'TRUE' if misuse else 'FALSE', _set(scns), impl, budget, invariants))


_node = re.compile(r'^(-?\d+) \[label="((?:[^"\\]|\\.)*)"(.*)\]\s*;?\s*$')
_edge = re.compile(r'^(-?\d+) -> (-?\d+) \[label="((?:[^"\\]|\\.)*)"')


def load_graph(dot, name):
    """dot -> {"name", "states": [{"adv","vc","obs"}], "init": [...], "edges": [{"s","d","a","g"}]} (duplicates removed)."""
    ids, states, init, edges, seen = {}, [], [], [], set()

    def nid(x):
        if x not in ids:
            ids[x] = len(states)
            states.append(None)
        return ids[x]

    with open(dot) as f:
        for line in f:
            m = _edge.match(line)
            if m:
                key = (m.group(1), m.group(2), m.group(3))
                if key in seen:
                    continue
                seen.add(key)
                act, args = tours.parse_label(tours._unesc(m.group(3)))
                edges.append({"s": nid(m.group(1)), "d": nid(m.group(2)), "a": act, "g": [str(a) for a in args]})
                continue
            if not line[:1].isdigit() and line[:1] != '-':
                continue
            m = _node.match(line)
            if not m:
                continue
            n = nid(m.group(1))
            if 'style = filled' in m.group(3) and n not in init:
                init.append(n)
            if states[n] is not None:
                continue
            st = {}
            for part in re.split(r'(?:^|\n)\s*/\\ ', tours._unesc(m.group(2))):
                var, _, val = part.partition(' = ')
                var = var.strip()
                if var in ('obs', 'adv', 'vc'):
                    st[var] = tlaval.parse(val)
            o = st['obs']
            o['sent'] = list(o.get('sent') or [])
            o['keq'] = [list(p) for p in (o.get('keq') or [])]
            o['pairs'] = [list(p) for p in (o.get('pairs') or [])]
            if not isinstance(o['m'], dict):       # no honest machines: TLC prints the empty function as << >>
                o['m'] = {}
            states[n] = st
    if any(s is None for s in states):
        raise MachineryError('state graph %s: an edge refers to a state without label' % name)
    return {"name": name, "states": states, "init": init, "edges": edges}


def build_graph(ctx, name, cfgtext, timeout=600):
    dot = os.path.join(ctx.spec_dir(), 'hs_%s.dot' % name)
    ctx.tlc('Handshake', 'MC_Handshake_%s_run.cfg' % name, args=['-dump', 'dot,actionlabels', dot], cfgtext=cfgtext, timeout=timeout)
    g = load_graph(dot, name)
    os.remove(dot)
    out = 'hs_graph_%s.json' % name
    with open(os.path.join(ctx.scratch, out), 'w') as f:
        json.dump(g, f, separators=(',', ':'))
    groups = len({(e['s'], e['a'], tuple(e['g'])) for e in g['edges']})
    ctx.extra.setdefault('graphs', {})[name] = {'states': len(g['states']), 'edges': len(g['edges']), 'labelled_steps': groups,
                                                'initial_states': len(g['init'])}
    return out


def asis_refuted(ctx, cfgtext):
    """The model of the unchanged library (Impl = "asis") must violate C07_RejectClean: guards against a specification
    that has lost its teeth, and documents the candidate finding the harness reproduces. Not a verdict."""
    r = ctx.tlc('Handshake', 'MC_Handshake_asis_run.cfg', cfgtext=cfgtext, expect_ok=False, count=False, timeout=300)
    if r['violated'] != 'C07_RejectClean':
        raise MachineryError('Handshake.tla with Impl="asis" was expected to violate C07_RejectClean, TLC says: violated=%s rc=%s\n%s'
                             % (r['violated'], r['rc'], r['out'][-1500:]))
    ctx.extra['model_of_unchanged_library_refutes'] = 'C07_RejectClean'


def nobind_refuted(ctx, cfgtext):
    """A reader that takes a complete certificate as it was sent and does not compare its key with the Noise static
    (Impl = "nobind") must violate C05_Auth: the certificate-form dimension of the adversary has teeth. Not a verdict."""
    r = ctx.tlc('Handshake', 'MC_Handshake_nobind_run.cfg', cfgtext=cfgtext, expect_ok=False, count=False, timeout=300)
    if r['violated'] != 'C05_Auth':
        raise MachineryError('Handshake.tla with Impl="nobind" was expected to violate C05_Auth, TLC says: violated=%s rc=%s\n%s'
                             % (r['violated'], r['rc'], r['out'][-1500:]))
    ctx.extra['model_without_key_binding_refutes'] = 'C05_Auth'


def finish(ctx, res, what):
    ctx.take_mismatches(res)
    ctx.extra[what] = (res.get('extra') or {})


RULE = ("MC: TLC checks C05_Auth/C05_Secrecy (and the other invariants) on Handshake.tla for the honest pair plus the adversary's "
        "initiator and responder under 5 identity classes, 6 payload shapes and the delivery operations. R: the state graphs of three "
        "sub-configurations (adversary initiator vs honest responder; honest initiator vs adversary responder; honest pair under "
        "replay/splice) are walked on real Machines for 2 curves x 2 ciphers until every (state, label) pair was executed; distinct = "
        "(graph, combo, state, label). Certificate FORM is a dimension of its own: the adversary's machines send the presented certificate "
        "stripped, complete with its own key, or complete with the adversary's key (v1 and v2 encodings, both curves), and the network embeds/"
        "replaces/strips the key of a clear stage-1 certificate; a completion is allowed only if the certificate the result reports carries the Noise "
        "static and that is the key the CA signed for the identity (a complete certificate may be refused, compared, or reassembled around the "
        "Noise static: completing and refusing are both allowed when the identity holds the Noise static); the variant that reports a complete "
        "certificate as sent (Impl=\"nobind\") must be refuted. D: content tables without certificate (requireComplete). T: seeded random schedules (up to 3+4 honest machines, 4 adversary machines, byte-level random "
        "truncations/flips) judged by the reference predicates. W: manager level, complete nodes: which certificates verify is state "
        "(HsManager.tla trust / Retrust = reload of pki.blocklist); trust is withdrawn and given back while handshakes are pending or "
        "answered and every recorded step is validated by TLC (a handshake completes only if the certificate verifies when the message "
        "is handled)")
ASSUMPTIONS = [
    "verdicts are one-directional (safety): every completion the real code makes must be allowed by the specification; a refusal "
    "where the specification would allow progress only ends that walk (C07's subject)",
    "symbolic cryptography: the adversary cannot forge AEAD tags, invert DH or forge CA signatures; 'derivable only with the private "
    "key' is bound to the code as: no key held by any adversary machine of the run opens the session's traffic",
    "the verifier is CAPool.VerifyCertificate at a fixed instant (as handshake_manager.certVerifier with time.Now())",
    "header fields other than length and subtype are not interpreted by handshake.Machine (the manager level is C09/C10)",
    "a payload that carries a COMPLETE certificate (public key embedded): the statement is read on the certificate the result reports; "
    "refusing it (as cert.Recombine does), comparing the embedded key with the Noise static, or dropping it and assembling the "
    "certificate around the Noise static all satisfy it; completing with a reported key that is not the Noise static never does",
]

C05_OPS = ["id", "hdrflip", "hdr", "after_s", "flip_p", "flip_s", "idx", "sub_e", "splice_e", "splice_p"] + CERT_OPS


def run(ctx):
    # quick: all-v2, and A v1-only against B with both (negotiation; the adversary presents v1 certificates there, v2 in the other)
    vcs = (1, 4) if ctx.quick else (1, 2, 3, 4, 5)
    # MC: the combined configuration (all four slots at once) - invariants only
    if ctx.quick:
        big = cfg(AI=("XI",), AR=("XR",), adv=("M", "K", "U"), vcs=(1,), ops=["id", "flip_p", "idx", "splice_e", "splice_p", "cert_keep"],
                  pk=("full", "empty", "nocert", "keep"))
    else:
        big = cfg(AI=("XI",), AR=("XR",), adv=ALL_ADV, vcs=(1, 4), ops=["id", "hdr", "after_s", "flip_p", "idx", "sub_e", "splice_e", "splice_p"] + CERT_OPS, pk=ALL_PK)
    ctx.tlc('Handshake', 'MC_Handshake_c05_all_run.cfg', cfgtext=big, timeout=1500)
    nobind_refuted(ctx, cfg(AI=("XI",), AR=("XR",), adv=("K",), vcs=(1,), ops=["id"], pk=("full", "keep"), impl="nobind",
                            scns=("advinit", "advresp")))
    graphs = [build_graph(ctx, 'c05', cfg(HI=("I1",), HR=("R1",) if ctx.quick else ("R1", "RA"), AI=("XI",), AR=("XR",), adv=ALL_ADV,
                                          vcs=vcs, ops=C05_OPS, pk=ALL_PK, scns=("advinit", "advresp", "pair")))]
    # one long-lived Credential per identity: an honest session first, then the adversary (K: the honest peer's certificate
    # bytes under its own static key; M: the insider) against another machine of the same victim identity
    graphs.append(build_graph(ctx, 'c05_shared', cfg(HI=("I1", "I2"), HR=("R1", "R2"), AI=("XI",), AR=("XR",), adv=("K", "M"),
                                                     vcs=(1,) if ctx.quick else (1, 2, 3), ops=["id", "hdrflip"], scns=("memo_r", "memo_i"))))
    plan = {'graphs': graphs, 'limit': 40000 if ctx.quick else 120000, 'random': 150 if ctx.quick else 2500, 'length': 40}
    with open(os.path.join(ctx.scratch, 'c05_plan.json'), 'w') as f:
        json.dump(plan, f)
    res = ctx.gotest('handshake', 'TestVerif_C05', also=('hs',), timeout=1500)
    finish(ctx, res, 'harness')
    whole_node(ctx)
    if not ctx.violations:      # vacuity only matters for a run that reports no disagreement
        ctx.require_actions('retrust-prologue:answer-after-trust-withdrawn', 'ev:Retrust')
        ctx.require_actions('Deliver', 'AdvInit', 'AdvResp', 'Initiate', 'complete', 'matrix', 'T:Deliver', 'T:complete', 'table:nothing',
                            # the certificate-form dimension: complete certificates reached a reader in both roles, form surgery ran
                            'pk:keep', 'pk:swap', 'form:keep->stage1-reader', 'form:keep->stage2-reader', 'form:swap->stage1-reader',
                            'form:swap->stage2-reader', 'op:cert_keep', 'op:cert_swap', 'op:cert_strip', 'complete-cert:v1', 'complete-cert:v2')


def whole_node(ctx):
    """Manager level: which certificates verify is STATE of a node (HsManager.tla variable trust, action Retrust = a reload of
    pki.ca / pki.blocklist); complete nodes whose trust is withdrawn and given back while handshakes are pending or answered are
    recorded and every step is validated by TLC (shared recorder of C09/C10/C32)."""
    from tools.props import _hs
    if not os.environ.get('VERIF_SKIP_MC'):
        # SpecTrust: trust withdrawn / given back at any moment (quick: up to 2 messages, 0.66 M distinct states; thorough: 3, 12 M)
        ctx.tlc('MC_HsManager', 'MC_HsManager_trust_q.cfg' if ctx.quick else 'MC_HsManager_trust.cfg', timeout=3000, workers=8)
    res, tf = _hs.record(ctx, traces=9 if ctx.quick else 40)
    ctx.traces += _hs.validate(ctx, tf, lambda ln, fl: ln.get('ev') == 'Retrust' or (ln.get('ev') == 'Deliver' and ln.get('kind') == 'handshake'),
                               strict_backoff=False)


META = {
    'category': 'model_checking',
    'technique': 'TLA+ spec Handshake.tla (Noise-IX token by token with symbolic crypto, handshake.Machine, Dolev-Yao adversary with insider/'
                 'untrusted/expired/blocklisted/key-mismatch identities); TLC invariants C05_Auth, C05_Secrecy; state graphs replayed on real '
                 'Machines for both curves and ciphers; seeded random adversarial schedules judged by the reference predicates',
    'text': 'TLC proves on the bounded model that a Machine only completes with a certificate the verifier accepted, whose key is the Noise '
            'static of the message that completed it, and that the session keys are derivable only with that key. Every labelled step of the '
            'state graphs is executed on real Machines (real certificates, adversary operations on real bytes at the token offsets); each '
            'completion of the real code must be one the specification allows, and the cross-decrypt matrix must equal the model\'s.',
    'design_ref': '3.2 C05',
    'note': 'Object level (handshake.Machine) plus a whole-node stage in which trust changes while handshakes are pending; hostmap contents after HandleIncoming are the subject of C09/C10.',
}
