"""C47 — the packet header encoding is exact (spec/Header.tla, vector mode)."""
RULE = ("every element of Header.tla's input lattice (all 16x256 type/subtype pairs; encode inputs over version x type x "
        "subtype x index/counter byte patterns; byte strings of every length 0..20) is one TLC state; each is concretised "
        "on the real Encode/Parse/IsValidSubType; distinct = distinct vectors")
ASSUMPTIONS = ["'all field values' is read as all values of the documented field widths (version and type are 4-bit)",
               "index and counter values are byte patterns (boundaries and mixed), plus 20000 seeded random full-width round trips"]


def run(ctx):
    cfg = open(ctx.spec_dir() + '/Vec_Header.cfg').read()
    if not ctx.quick:
        cfg = cfg.replace('Thorough = FALSE', 'Thorough = TRUE')
    n = ctx.tlc_vectors('Header', 'Vec_Header_run.cfg', cfgtext=cfg)
    ctx.extra['vectors'] = n
    res = ctx.gotest('header', 'TestVerif_C47')
    ctx.take_mismatches(res)
    ctx.traces += n
    ctx.require_actions('enc', 'parse', 'valid', 'parse:roomy-buffer')


META = {
    'category': 'model_checking',
    'technique': 'TLA+ function specification Header.tla; TLC enumerates the input lattice, checks the round-trip/short-input/'
                 'prefix-only laws on every vector, and each vector is executed on the real header codec',
    'text': 'The header layout and the type/subtype table are transcribed into TLA+; TLC checks the round-trip law on the whole '
            'lattice and emits one expected result per input; the harness runs the real Encode/Parse/IsValidSubType on each '
            '(exact-capacity buffers so that over-reads panic) and compares, plus seeded random full-width round trips.',
    'design_ref': '3.4 C47',
    'note': 'Finite lattice, not all 2^128 headers: the code is straight-line byte packing, so byte-pattern boundaries are what matter.',
}
