"""C13 — nonces are never reused and the counter ceiling is enforced (spec/DataPlaneTx.tla)."""
import json, os, random
from tools import tours

RULE = ("MC: all interleavings of 3 (thorough 4) concurrent senders over both send paths, start counters around the "
        "ceiling, with and without the write lock, at the code's grain (Add and Store(ceiling) separate). "
        "R: every complete interleaving of the gate-grain model imposed on a real ConnectionState through "
        "sendInsideEncrypt/sendNoMetrics/SendVia by parking goroutines inside the AEAD call; distinct = (graph, path)")
ASSUMPTIONS = [
    "the model's small ceiling is mapped affinely onto RejectAfterMessages (the code only increments and compares)",
    "schedules are imposed at the grain 'reserve' / 'seal' (goroutines parked inside EncryptDanger); the finer split "
    "Add / Store(ceiling) of NextMessageCounter is explored by TLC only",
    "the lock probe waits 40 ms for a second sender to show up inside the critical section: a miss can only hide a "
    "defect, never raise an alarm",
]


def run(ctx):
    plan = {'graphs': []}
    rnd = random.Random(ctx.seed)
    senders = '{s1, s2, s3}'
    for lock in ('TRUE', 'FALSE'):
        ctx.tlc('DataPlaneTx', 'MC_DataPlaneTx_%s_fine.cfg' % lock)
        dot = os.path.join(ctx.spec_dir(), 'tx_%s.dot' % lock)
        ctx.tlc('DataPlaneTx', 'MC_DataPlaneTx_%s_gate.cfg' % lock, args=['-dump', 'dot,actionlabels', dot])
        out = 'txpaths_%s.json' % lock
        st = tours.build_paths(dot, os.path.join(ctx.scratch, out), limit=1500 if ctx.quick else 100000, rnd=rnd)
        os.remove(dot)
        ctx.extra.setdefault('graphs', {})[lock] = st
        plan['graphs'].append({'file': out, 'lockNeeded': lock == 'TRUE', 'ceiling': 8, 'hsMsgs': 2})
    if not ctx.quick:
        for lock in ('TRUE', 'FALSE'):
            cfg = open(os.path.join(ctx.spec_dir(), 'MC_DataPlaneTx_%s_fine.cfg' % lock)).read()
            cfg = cfg.replace('{s1, s2, s3}', '{s1, s2, s3, s4}')
            ctx.tlc('DataPlaneTx', 'MC_DataPlaneTx_%s_fine4.cfg' % lock, cfgtext=cfg, timeout=1500)
    with open(os.path.join(ctx.scratch, 'c13_plan.json'), 'w') as f:
        json.dump(plan, f)
    res = ctx.gotest('.', 'TestVerif_C13', also=('dp',))
    ctx.take_mismatches(res)
    # second pass: Go's FIPS 140 mode (EncryptLockNeeded true at start, P-256 + AES-GCM whose AEAD itself refuses
    # non-increasing nonces)
    res2 = ctx.gotest('.', 'TestVerif_C13', also=('dp',), env={'GODEBUG': 'fips140=on', 'VERIF_FIPS': '1'}, name='c13_fips')
    ctx.take_mismatches(res2)
    if not res2.get('extra', {}).get('encryptLockNeededAtStart'):
        from tools.check import MachineryError
        raise MachineryError('FIPS pass did not run in FIPS mode')
    ctx.extra['fips_pass'] = res2.get('extra')
    for label, r in (('normal', res), ('fips', res2)):
        fails, ok = ctx.validate_traces('Trace_DataPlaneTx', 'Trace_DataPlaneTx.cfg', os.path.join(r['_outdir'], 'trace_tx.ndjson'))
        ctx.traces += ok
        for fl in fails:
            hdr = fl['trace'][0] if fl.get('trace') else {}
            ctx.violation('trace:concurrent-senders:%s' % label,
                          'concurrent senders (%s mode): nonce start+%s reached the AEAD after %s; not a behaviour of the '
                          'specification (reuse, at/beyond the ceiling, or out of order under the write lock)' %
                          (label, fl['line'].get('n'), [c.get('n') for c in fl['context']]), fl)
    ctx.extra['drift'] = {'normal': res.get('actions', {}).get('drift', 0), 'fips': res2.get('actions', {}).get('drift', 0),
                          'example': res.get('extra', {}).get('drift_example')}
    if ctx.extra['drift']['normal'] * 2 > max(1, res.get('traces', 0)):
        from tools.check import MachineryError
        raise MachineryError('model and code have drifted apart on most behaviours (%s): the imposed schedules no longer mean anything' % ctx.extra['drift'])
    ctx.require_actions('ReserveFast', 'ReserveSafeAdd', 'ReserveSafeRefuse', 'Seal', 'Lock', 'LockProbe', 'Abandon')


META = {
    'category': 'model_checking',
    'technique': 'TLA+ spec DataPlaneTx.tla: TLC enumerates all interleavings of concurrent senders (reserve/pin/seal, both '
                 'paths, with/without write lock); every complete interleaving is imposed on a real ConnectionState by parking '
                 'goroutines inside the AEAD call; normal and GODEBUG=fips140=on',
    'text': 'TLC checks no-reuse / above-handshake / below-ceiling / increasing-under-lock over all schedules at the code\'s grain; '
            'each complete schedule of the gate-grain model is then executed on the real send paths (sendInsideEncrypt, '
            'sendNoMetrics, SendVia) with counters next to RejectAfterMessages and the counter, the reserved nonce, refusals and '
            'the order of nonces at the cipher are compared step by step.',
    'design_ref': '3.4 C13',
    'note': 'Trusts TLC and the gate harness; schedules are controlled at reserve/seal granularity. The AEAD primitives '
            'themselves are not modelled.',
}
