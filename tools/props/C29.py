"""C29 — local tunnel indexes are unique and never zero, released only by their owner (spec/Hostmap.tla).
Shares specification, harness engine and pipeline with C28 (tools/props/C28.py); runs its own TLC and harness."""
from tools.props import C28 as hm

RULE = ("MC: TLC checks Disjoint / PendingOK / UniqueIdx / UniqueRel and the action properties IndexOwner / RemoteOwner of "
        "Hostmap.tla with index spaces of 2-3 values (collisions, re-use and exhaustion are reachable). R: edge tours + seeded "
        "simulations replayed on a real HandshakeManager/HostMap with every generateIndex draw imposed through a scripted "
        "crypto/rand.Reader (draws of 0, forced collisions in main and pending, success on the 32nd attempt, 32 consecutive "
        "collisions for allocateIndex and AddRelay, colliding responder index); the index maps are compared after every step "
        "and 0 / foreign keys / shared indexes are looked for on the real maps. T: random sequences with natural draws from "
        "0..12 (0..6 every 4th trace) validated by TLC; a logged allocation must end on a free drawn value, a failure must "
        "have seen only taken values")
ASSUMPTIONS = hm.ASSUMPTIONS + [
    "namespaces: local indexes of main and pending tunnels share one namespace, relay indexes are a second one, remote "
    "indexes a third (entries may be shadowed by a newer tunnel, never removed by another one)",
    "the number of draws is not compared, only: success ends on a free value that was drawn, failure saw no free value",
]


def run(ctx):
    P, J = hm.P, hm.J
    if ctx.quick:
        graphs, sm = hm.prepare(ctx, graphs=[J('g3E', P(3, 1, 2, 1, 'ShapesE', 5, 0), limit_edges=12000)],
                                simulations=[J('crowded', P(8, 2, 3, 1, 'ShapesD', 5, 1), num=120, depth=60)])
        traces, ops = 12, 200
    else:
        graphs, sm = hm.prepare(ctx,
                                mcs=[J('idx3', P(3, 2, 3, 1, 'ShapesD', 2, 1), timeout=3000),
                                     J('design', P(3, 3, 2, 1, 'ShapesA', 2, 1), timeout=3000)],
                                graphs=[J('g3E', P(3, 1, 2, 1, 'ShapesE', 5, 1), limit_edges=80000, max_len=60),
                                        J('g2D', P(2, 2, 2, 1, 'ShapesD', 5, 1), max_len=60)],
                                simulations=[J('crowded', P(8, 2, 3, 1, 'ShapesD', 5, 1), num=600, depth=70),
                                             J('crowded4', P(10, 3, 4, 2, 'ShapesA', 5, 2), num=600, depth=70),
                                             J('evict', P(10, 2, 7, 2, 'ShapesB', 5, 1), num=400, depth=80)])
        traces, ops = 80, 220
    hm.pipeline(ctx, 'C29', graphs, sm, traces, ops)
    if ctx.violations:      # behaviours are cut at the first disagreement: coverage of later steps is not expected
        return
    ctx.require_actions('AllocateIndex', 'AllocateIndexFail', 'giveup32', 'collision-retry', 'zero-draw', 'CheckAndComplete:collision',
                        'CheckAndComplete:ok', 'Complete', 'AddRelay', 'AddRelayFail', 'relay-giveup32', 'Delete', 'Delete:stale',
                        'DeletePending', 'DeletePending:stale', 'T:AllocateIndex', 'T:collision-or-zero-redraw',
                        'T:CheckAndComplete:collision', 'T:DeletePending:stale', 'T:Delete:stale')


META = {
    'category': 'model_checking',
    'technique': 'TLA+ spec Hostmap.tla with small index spaces: TLC checks namespace disjointness, uniqueness and the ownership '
                 'action properties; graph tours and simulations replayed on the real HandshakeManager/HostMap with index draws '
                 'imposed through a scripted crypto/rand.Reader (0, collisions, 32 collisions); recorded sequences with natural '
                 'draws validated by TLC',
    'text': 'Every index handed out by allocateIndex, the responder path (generateIndex + CheckAndComplete) and AddRelay is non-zero '
            'and free in its namespace at the moment it is registered; give-up after 32 collisions leaves no trace; an index or '
            'remote index entry disappears only in a step that removes the tunnel it points to (Complete hands the pending index '
            'over to the main map).',
    'design_ref': '3.3 C29',
    'note': 'Object level (one node, locked sections called one at a time in every order the model allows); the truly concurrent '
            'driver of the design (hook 2) is not part of this check. Trusts TLC and /verif/tools.',
}
