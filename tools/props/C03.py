"""C03 — every issued certificate decodes back to itself (spec/CertCodec.tla, Trace_CertCodec.tla; V + T)."""
import json, os
import sys
import tools.check
# bin/check runs tools.check as __main__: raise the class its `except` clause knows
MachineryError = getattr(sys.modules.get('__main__'), 'MachineryError', tools.check.MachineryError)
from tools.props.C02 import validate_observations

RULE = ("V: every abstract TBS shape of CertCodec.tla (version x curve x CA/host x name length/UTF-8 class x group list x network list x "
        "unsafe-network list x key present) is one TLC state on which TLC checks Signed => Decode(Encode_e) = id and Decoded => Shape for "
        "the model; each is concretised and given to the real Sign; if it signs, its standard, PEM and handshake encodings are decoded "
        "by the real decoders and compared field by field, by fingerprint and by re-encoding; each is also hand-encoded (own DER/protobuf "
        "writer) and given to the decoders: what a decoder accepts Sign must accept; distinct = shapes. The size rule is swept byte by "
        "byte: for both curves and CA/host one vector per exact standard-encoding length MaxCertificateSize-2..+16 (thorough -6..+40), "
        "filler group tuned to the byte, fixed-length signatures. "
        "T: seeded random TBS certificates (names to 650 bytes, up to 40 networks, 30 unsafe networks, 30 groups, validity +-2^45 s with "
        "nanoseconds, one unusual feature in a third of them) through the same two checks, projected to the abstract shape and "
        "validated by TLC against Rel3/Shape; traces = random certificates")
ASSUMPTIONS = [
    "'identical fields': version, name, networks, unsafe networks, groups (nil and empty list are the same), CA flag, issuer, curve, "
    "public key, signature, fingerprint; validity compared in whole seconds (the encodings carry seconds; Sign keeps the caller's "
    "sub-second part in the object it returns)",
    "the signed object is compared with the requested content as a bag of networks (v2 sorts them) and with the decoded certificate as "
    "an ordered list",
    "'the structural rules that signing enforces' are observed from the real Sign on the same content, not taken from the model: a "
    "violation is (Sign accepts and an encoding fails to decode back) or (a decoder accepts a hand-made encoding and Sign refuses the "
    "same content). Where signer and decoder agree with each other but not with Shape of CertCodec.tla the run ends with exit 2 "
    "(specification out of date), never exit 1",
    "the standard encoding is decoded through a PEM block built by the harness, the PEM encoding through MarshalPEM, the handshake "
    "encoding through Recombine(version, bytes, certificate key, certificate curve)",
    "'decoding arbitrary bytes never panics' is not decided (DESIGN section 5); a panic met on the way is still reported (key panic:...)",
    "v2 certificates larger than MaxCertificateSize (65536) are inside the quantifier ('any groups'): the lattice contains a 70000-byte group "
    "and one vector per exact encoded length around the limit; for those P-256 vectors Sign is exercised as SignWith + the same lambda "
    "retried until the low-S signature is 71 bytes long (Sign itself is that lambda once), so that every length is hit exactly; "
    "the size limit is read as a rule about the standard encoding: at the boundary Decoded => Shape is checked on the hand-made standard "
    "encoding only (the handshake form of the same content is ~36/70 bytes shorter and stays readable just above the limit)",
]


def run(ctx):
    cfg = open(os.path.join(ctx.spec_dir(), 'Vec_CertCodec_C03.cfg')).read()
    if not ctx.quick:
        cfg = cfg.replace('Thorough = FALSE', 'Thorough = TRUE')
    n = ctx.tlc_vectors('CertCodec', 'Vec_CertCodec_C03_run.cfg', out='c03_vectors.ndjson', cfgtext=cfg, timeout=1500)
    ctx.extra['vectors'] = n
    res = ctx.gotest('cert', 'TestVerif_C03', also=('certcodec',), timeout=1500)
    if res['_rc'] != 0:
        raise MachineryError('harness TestVerif_C03 failed:\n%s' % res['_stdout'][-3000:])
    ctx.take_mismatches(res)
    ctx.traces += n
    trace = os.path.join(res['_outdir'], 'c03_obs.ndjson')
    lines, bad = validate_observations(ctx, trace)
    ctx.extra['random_validated'] = sum(1 for ln in lines if ln.get('ev') == 'obs3')
    drift = list((res.get('extra') or {}).get('drift') or [])
    for ln, kind in bad:
        ver = 'v%s' % (ln.get('t') or {}).get('ver')
        if kind == 'drift':
            drift.append({'random': ln})
        elif ln.get('sign') and not ln.get('rt'):
            ctx.violation('roundtrip:%s:%s' % (ver, ln.get('label')),
                          'random certificate %s (%s): Sign accepted it but an encoding does not decode back (Rel3 of CertCodec.tla)' %
                          (ln.get('i'), ln.get('label')), ln)
        else:
            ctx.violation('decoder-accepts-unsignable:%s:%s' % (ver, ln.get('label')),
                          'random certificate %s (%s): a decoder accepts a hand-made encoding of content that Sign refuses' %
                          (ln.get('i'), ln.get('label')), ln)
    ctx.extra['drift'] = drift[:10]
    if drift and not ctx.violations:
        raise MachineryError('Shape of CertCodec.tla is out of date: the real signer and the real decoders agree with each other but '
                             'not with the specification on %d input(s), e.g. %s' % (len(drift), json.dumps(drift[0])[:1500]))
    ctx.require_actions('sign:ok', 'sign:refused', 'hand:decoded', 'hand:refused', 'hand:unencodable', 'V:shape:ok',
                        'V:size-boundary:signed', 'V:size-boundary:refused', 'V:shape:nets:dup', 'V:shape:nets:4in6', 'V:shape:name:long', 'V:shape:group:empty', 'T:ok')


META = {
    'category': 'model_checking',
    'technique': 'TLA+ function specification CertCodec.tla: one structural rule Shape used as guard of Sign and of Decode, '
                 'canonicalisation and the three encodings; TLC checks Signed => Decode(Encode_e(c)) = c and Decoded => Shape on every '
                 'shape of the lattice; every shape executed on the real Sign / Marshal* / decoders, plus hand-made encodings into the '
                 'decoders; seeded random certificates projected and validated by TLC (Trace_CertCodec.tla)',
    'text': 'The signer\'s and the decoders\' structural rules are written once (Shape) and TLC enumerates the product of its input '
            'classes. Each shape is concretised and signed by the real API; a signed certificate must come back identical from its '
            'standard, PEM and handshake encodings, and a hand-encoded certificate accepted by a decoder must be signable. '
            'Random certificates far beyond the lattice are pushed through the same checks and their projections validated by TLC.',
    'design_ref': '3.1 C03',
    'note': 'Trusts TLC, the concretisation/projection and the independent DER/protobuf writers in harness/cert/zz_verif_c03_test.go. '
            'The robustness clause (no panic on arbitrary bytes) is outside this technique.',
}
