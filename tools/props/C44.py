"""C44 — the DNS responder answers only from authenticated data (spec/Dns.tla)."""
import json, os, random
from tools import tlaval, tours
from tools.check import MachineryError

RULE = ("MC: all handshake histories (<= 3, thorough 4) keep the maps equal to the reference function of the history. "
        "R: every history <= 3 (thorough: every edge of the record-state graph of histories <= 4, wider alphabets) is replayed on a real dnsServer through the hostmap-add path "
        "and the records are read back through the request handler; every vector (history <= 1 (thorough 2) x question lists "
        "of <= 2 x 5 client addresses) is sent through handleDnsRequest and compared with the permitted answers / response "
        "codes computed by TLC; distinct = graph edges + vectors")
ASSUMPTIONS = [
    "records survive the tunnel that created them (the statement only requires that they come from a completed handshake)",
    "'known name' = a host name with an A or AAAA record; for IP-literal names (certificate lookups) and for messages "
    "without any known name that are not pure address queries either NXDOMAIN or an empty NOERROR is accepted",
    "a message containing a TXT question from a client that may not ask it may be answered partially (the responder stops "
    "at that question); no TXT record may be returned and records returned must still be permitted ones",
    "answers are compared as sets per message; with several questions only the first has to be answered (the responder "
    "echoes just that one), records for the others are permitted, and the response code may be the one for the first "
    "question alone or for the whole list",
]


def run(ctx):
    d = ctx.spec_dir()
    mc = open(os.path.join(d, 'MC_Dns.cfg')).read()
    gcfg = open(os.path.join(d, 'Graph_Dns.cfg')).read()
    vcfg = open(os.path.join(d, 'Vec_Dns.cfg')).read()
    if not ctx.quick:
        mc = mc.replace('MaxHist = 3', 'MaxHist = 4')
        vcfg = vcfg.replace('MaxHist = 1', 'MaxHist = 2').replace('Wide = FALSE', 'Wide = TRUE')
        gcfg = gcfg.replace('Wide = FALSE', 'Wide = TRUE')
    dot = os.path.join(d, 'c44.dot')
    if ctx.quick:
        # one run: all histories <= 3 (no VIEW, so the link invariants are checked on every history) and its graph (a tree)
        ctx.tlc('Dns', 'MC_Dns_run.cfg', cfgtext=mc, args=['-dump', 'dot,actionlabels', dot], timeout=1500)
    else:
        ctx.tlc('Dns', 'MC_Dns_run.cfg', cfgtext=mc, timeout=1500)
        ctx.tlc('Dns', 'Graph_Dns_run.cfg', cfgtext=gcfg, args=['-dump', 'dot,actionlabels', dot], timeout=1500)
    # at most 5 steps per tour: the hostmap keeps 5 tunnels per overlay address and retires the oldest beyond that
    st = tours.build(dot, os.path.join(ctx.scratch, 'c44_graph.json'), max_len=5, rnd=random.Random(ctx.seed),
                     keep_vars={'m4', 'm6', 'own'})
    os.remove(dot)
    if st['edges_covered'] != st['edges']:
        raise MachineryError('edge cover incomplete: %s' % st)
    ctx.extra['graph'] = st
    dump = os.path.join(d, 'c44vec')
    ctx.tlc('Dns', 'Vec_Dns_run.cfg', cfgtext=vcfg, args=['-dump', dump], timeout=1500)
    path = dump + '.dump' if os.path.exists(dump + '.dump') else dump
    vecs = []
    for s in tlaval.parse_states_file(path):
        if s['vec']['ql']:
            vecs.append({'hist': s['hist'], 'vec': s['vec']})
    os.remove(path)
    vecs.sort(key=lambda v: json.dumps(v['hist']))
    with open(os.path.join(ctx.scratch, 'c44_vectors.ndjson'), 'w') as f:
        for v in vecs:
            f.write(json.dumps(v, separators=(',', ':')) + '\n')
    ctx.extra['vectors'] = len(vecs)
    res = ctx.gotest('.', 'TestVerif_C44')
    ctx.take_mismatches(res)
    ctx.traces += len(vecs)
    if not ctx.violations:
        ctx.require_actions('Handshake', 'Query', 'rc:NOERROR', 'rc:NXDOMAIN', 'ans:A', 'ans:AAAA', 'ans:TXT')


META = {
    'category': 'model_checking',
    'technique': 'TLA+ spec Dns.tla: records as a function of the handshake history (reference) vs the two maps and the hostmap '
                 '(machine), permitted answers/response codes per question list and client; TLC checks the links; graph edges and '
                 'query vectors are executed on a real dnsServer through unlockedAddHostInfo and handleDnsRequest',
    'text': 'Real peer certificates (names in several spellings, v4/v6 overlay addresses) are added through the hostmap path a '
            'completed handshake takes; queries of type A/AAAA/TXT/MX (and more in the thorough tier), single and paired, in '
            'several spellings, from loopback, own overlay addresses, a peer address and an outside address go through the real '
            'request handler with a recording ResponseWriter.',
    'design_ref': '3.10 C44',
    'note': 'The UDP listener and the miekg/dns wire codec are not exercised; reload-driven clearing of records is outside the statement.',
}
