"""C02 — tampered certificates are rejected (spec/CertCodec.tla, Trace_CertCodec.tla; V + T)."""
import json, os, re, shutil
import sys
import tools.check
# bin/check runs tools.check as __main__: raise the class its `except` clause knows
MachineryError = getattr(sys.modules.get('__main__'), 'MachineryError', tools.check.MachineryError)

RULE = ("V: every (version x curve x encoding x tamper class x field) case of CertCodec.tla is one TLC state (the machine layer is "
        "checked against the relation Rel on each); each is carried out on the real protobuf/DER bytes of a trusted certificate, "
        "decoded by UnmarshalCertificateFromPEM / Recombine and verified by CAPool.VerifyCertificate + CheckSignature; distinct = cases. "
        "T: every single-bit flip, byte deletion, insertion (4 values + neighbour; thorough: all 256, every byte value, adjacent swaps), "
        "truncation and 9 short extensions of the 8 version x curve x encoding exemplars (thorough: 3 certificate shapes each) is decoded and verified, projected to "
        "(decodes, identity-diff set, signature relation, canonical, verdicts under blocklists) and every distinct projection per "
        "(exemplar, operation) is validated by TLC against Rel; traces = mutants executed")
ASSUMPTIONS = [
    "'rejected by verification' is observed at CAPool.VerifyCertificate AND at Certificate.CheckSignature(CA key): neither may accept a "
    "decoded certificate whose identity differs or whose signature bytes are neither the trusted ones nor their P-256 twin",
    "identity = the ten fields of the statement; networks, unsafe networks and groups are compared as ordered lists, validity in whole seconds",
    "signature relation is on bytes (fingerprints and blocklists are on bytes): twin = exactly p256.Swap(trusted signature)",
    "the converse (must accept) is demanded only when the signed content is byte-identical (decoded certificate re-encodes, signature "
    "aside, to the trusted standard encoding) and the signature is the trusted one or its twin; an altered encoding that decodes to the "
    "same ten fields but different signed bytes (v2 unknown element inside the details) may be rejected",
    "blocklist clause: an accepted variant is rejected once the trusted fingerprint is blocklisted, and the trusted certificate is "
    "rejected once the variant's fingerprint is blocklisted",
    "the standard encoding is altered as raw bytes and handed to the decoder inside a well-formed PEM block (the only exported decoder "
    "of that form); PEM text itself is not altered. Handshake form: Recombine with the peer's static key and the receiver's curve",
    "a panic of a decoder or of VerifyCertificate on an altered encoding is reported as a violation (key panic:<exemplar>)",
]


def _cls(o):
    if not o.get('dec'):
        return 'undecodable'
    return 'diff=%s,sig=%s' % ('+'.join(o.get('diff') or []) or 'none', o.get('sig'))


def validate_observations(ctx, tracefile):
    """T direction in one TLC pass.  The observations are independent of each other, so Trace_CertCodec.tla examines every
    line, evaluates Rel / Rel3 / Shape on it and reports the lines that contradict the relation instead of stopping at the
    first one (ctx.validate_traces costs one TLC run per rejected trace).  Returns (lines, [(line_object, kind)])."""
    with open(tracefile) as f:
        lines = [json.loads(x) for x in f if x.strip()]
    shutil.copyfile(tracefile, os.path.join(ctx.spec_dir(), 'trace.ndjson'))
    r = ctx.tlc('Trace_CertCodec', 'Trace_CertCodec.cfg', workers=1, timeout=1500)    # raises unless every line was examined
    bad = sorted({(int(n), kind) for n, kind in re.findall(r'<<"VERIF_BAD", (\d+), "(\w+)">>', r['out'])})
    if r['distinct'] != len(lines) + 1:
        raise MachineryError('trace validation examined %d of %d lines' % (r['distinct'] - 1, len(lines)))
    return lines, [(lines[n - 1], kind) for n, kind in bad]


def run(ctx):
    cfg = open(os.path.join(ctx.spec_dir(), 'Vec_CertCodec_C02.cfg')).read()
    if not ctx.quick:
        cfg = cfg.replace('Thorough = FALSE', 'Thorough = TRUE')
    n = ctx.tlc_vectors('CertCodec', 'Vec_CertCodec_C02_run.cfg', out='c02_vectors.ndjson', cfgtext=cfg)
    ctx.extra['vectors'] = n
    res = ctx.gotest('cert', 'TestVerif_C02', also=('certcodec',), timeout=1500)
    if res['_rc'] != 0:
        raise MachineryError('harness TestVerif_C02 failed:\n%s' % res['_stdout'][-3000:])
    ctx.take_mismatches(res)
    ctx.traces += n
    for k in ('byte_mutants', 'byte_projections', 'exemplar_bytes', 'panics'):
        ctx.extra[k] = (res.get('extra') or {}).get(k)
    trace = os.path.join(res['_outdir'], 'c02_obs.ndjson')
    lines, bad = validate_observations(ctx, trace)
    ctx.extra['observations_validated'] = sum(1 for ln in lines if ln.get('ev') == 'obs')
    for ln, kind in bad:
        o = ln.get('o') or {}
        if ln.get('op') == 'V':
            key = 'rel:%s' % ln.get('case')
        else:
            key = 'rel:byte:%s:%s:%s' % (ln.get('op'), ln.get('x'), _cls(o))
        ctx.violation(key, 'observation of the real code contradicts Rel of CertCodec.tla: exemplar %s, %s, projection %s '
                      '(VerifyCertificate=%s CheckSignature=%s, blocklist escapes %s/%s)' %
                      (ln.get('x'), ln.get('case') or ('%s first at %s' % (ln.get('op'), json.dumps(ln.get('first')))), _cls(o),
                       o.get('acc'), o.get('chk'), o.get('accBlOrig'), o.get('origAccBlMut')),
                      {'line': ln, 'mutants_with_this_projection': ln.get('n')})
    ctx.require_actions('V:id', 'V:alter', 'V:drop', 'V:sigTwin', 'V:sigFlip', 'V:sigPad', 'V:unknown', 'V:decodes', 'V:verdict:reject',
                        'V:verdict:accept', 'T:flip', 'T:del', 'T:ins', 'T:trunc', 'T:ext', 'T:decodes', 'T:accepted')


META = {
    'category': 'model_checking',
    'technique': 'TLA+ function specification CertCodec.tla (signed-field set, tamper classes, twin/blocklist algebra, relation Rel '
                 'between observations; abstract machine of what v1/v2 signatures cover checked against Rel by TLC); vectors executed '
                 'on real certificate bytes; byte-level mutants of 8 exemplars projected and validated by TLC (Trace_CertCodec.tla)',
    'text': 'The statement is a relation between observations: decodes => (accepted => identity unchanged and signature trusted-or-twin), '
            'plus the blocklist clause. TLC enumerates tamper class x field x version x curve x encoding, checks that an abstract machine '
            'of the two signature schemes satisfies the relation and emits the verdict the signed-field set demands; the harness performs '
            'each tamper on real protobuf/DER bytes. Independently every single-byte mutant of the 8 exemplars is decoded, verified, '
            'projected and each distinct projection validated by TLC against the same relation.',
    'design_ref': '3.1 C02',
    'note': 'Trusts TLC, the projection (identity diff, signature relation) in harness/cert/zz_verif_certcodec_test.go and the tamper '
            'implementations (self-checked: an alter/drop vector that decodes must show the field in the diff). '
            'Leaving the curve out of the v2 signed bytes is not observable with two curves (the curve also selects the verification '
            'algorithm and must equal the CA curve), so that change is outside what this check can see.',
}
