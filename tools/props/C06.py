"""C06 — completed handshakes agree on keys and indexes (spec/Handshake.tla; shared code in C05.py)."""
import json, os
from tools.props import C05 as hs

RULE = ("MC: TLC checks C06_Agree/C06_Exclusive on Handshake.tla (two honest initiators, two honest responders, 5 version "
        "configurations, replays, rewritten indexes, spliced ephemerals). R: every (state, label) pair of that graph is executed on real "
        "Machines for 2 curves x 2 ciphers; after each completion the real cross-decrypt matrix (keys wrapped by "
        "noiseutil.NewCipherState, header as AD) must equal the model's and paired results must cross-match; distinct = (combo, state, "
        "label). V: curve x cipher x version configuration x boundary index allocators. T: seeded random schedules")
ASSUMPTIONS = [
    "'over the same session' is read as: each side consumed exactly the Noise message the other emitted (equal transcripts in the "
    "model); header-only changes do not change the session",
    "'decrypts only with' is bound as: within a run no other completed machine's (nor the adversary's) receiving key opens it",
    "newConnectionStateFromResult is in package nebula and cannot be called from package handshake: the harness wraps Result.EKey/DKey "
    "with noiseutil.NewCipherState(key, Result.Cipher) exactly as it does and uses the 16-byte header as associated data",
    "a handshake that does not complete is not C06's subject",
]
C06_OPS = ["id", "hdrflip", "idx", "splice_e", "splice_p", "flip_p"]


def run(ctx):
    # R: two initiators x one responder and one initiator x two responders, all version configurations, in one TLC run
    graphs = [hs.build_graph(ctx, 'c06', hs.cfg(HI=("I1", "I2"), HR=("R1", "R2"), vcs=(1, 2, 3, 4, 5), ops=C06_OPS, scns=("two_i", "two_r")))]
    # MC only: two of each (quick: replays and rewritten indexes; thorough: all operations and versions, and 3 x 2)
    if ctx.quick:
        ctx.tlc('Handshake', 'MC_Handshake_c06_2x2_run.cfg', timeout=600,
                cfgtext=hs.cfg(HI=("I1", "I2"), HR=("R1", "R2"), vcs=(1,), ops=["id", "idx"], scns=("pair",)))
    else:
        ctx.tlc('Handshake', 'MC_Handshake_c06_2x2_run.cfg', timeout=1500,
                cfgtext=hs.cfg(HI=("I1", "I2"), HR=("R1", "R2"), vcs=(1, 2, 3, 4, 5), ops=C06_OPS, scns=("pair",)))
        ctx.tlc('Handshake', 'MC_Handshake_c06_big_run.cfg', timeout=1500,
                cfgtext=hs.cfg(HI=("I1", "I2", "I3"), HR=("R1", "R2"), vcs=(1,), ops=["id", "idx"], scns=("pair",)))
    plan = {'graphs': graphs, 'limit': 40000 if ctx.quick else 400000, 'random': 150 if ctx.quick else 3000, 'length': 40}
    with open(os.path.join(ctx.scratch, 'c06_plan.json'), 'w') as f:
        json.dump(plan, f)
    res = ctx.gotest('handshake', 'TestVerif_C06', also=('hs',), timeout=1500)
    hs.finish(ctx, res, 'harness')
    if not ctx.violations:      # vacuity only matters for a run that reports no disagreement
        ctx.require_actions('Deliver', 'Initiate', 'complete', 'matrix', 'pair', 'V:session', 'T:pair')


META = {
    'category': 'model_checking',
    'technique': 'TLA+ spec Handshake.tla; TLC invariants C06_Agree/C06_Exclusive over all interleavings of two sessions per side; state graph '
                 'replayed on real Machines (both curves, both ciphers, v1/v2/cross-version) with the cross-decrypt matrix of the real keys '
                 'compared against the model after every completion',
    'text': 'In the model, machines that completed on equal transcripts hold mirrored keys (Split order), cross-matching non-zero indexes and equal '
            'message counts, and no other machine holds a key that opens their traffic. Every labelled step of the graph is executed on real '
            'Machines; each side\'s EncryptDanger output must open with exactly the receiving keys the model lists.',
    'design_ref': '3.2 C06',
    'note': 'ConnectionState construction itself (replay window seeding) belongs to C11/C12.',
}
