"""C23 — receive coalescing is transparent to the tun device (spec/Coalesce.tla)."""
import json, os, re, shutil
from tools.check import MachineryError

RULE = ("V: every batch of Coalesce.tla's lattice (per lane: TCP 27 / UDP 17 / mixed 10 packet kinds [thorough 37 / 23] = flag sets, "
        "pure ACKs, short / long / 32750-byte payloads, sequence gaps and retransmissions across the 2^32 wrap, DF / sequential / "
        "jumping IPv4 IDs across the 2^16 wrap, DSCP/ECN and other header variants, IP options / extension headers, first and "
        "later fragments, length fields that disagree with the bytes; batches of <= 3 packets [<= 4], IPv4 and IPv6, one or two "
        "tunnel sessions, arrival order permuted) is one TLC state on which TLC checks that the machine (sort by (epoch, counter) "
        "-> lanes -> writes -> kernel segmentation) satisfies the statement; each is concretised to real packets, committed to "
        "the real MultiCoalescer over a recording tio.GSOWriter, every recorded write re-segmented by a reference kernel "
        "segmentation and projected back by payload tags and byte comparison. T: seeded random batches of 20..300 packets "
        "(real sizes, up to 40 flows, 2 sessions, runs longer than 64 segments / 65535 bytes, oversized packets). Every "
        "observation (V and T) is judged by TLC against the statement (Judge); distinct = distinct vectors")
ASSUMPTIONS = [
    "order: only packets of the same tunnel session and the same flow (family, protocol, addresses, ports) are ordered; a later "
    "fragment (no ports) is ordered only against later fragments between the same addresses; order across sessions, flows and "
    "lanes is free",
    "'pure TCP ACK' = TCP segment without payload, ACK set, none of SYN/FIN/RST; it may come out after a later packet of its flow "
    "only if that packet carries payload",
    "whether two packets are coalesced is free; only the result is judged",
    "'the packet' ends where its IP header says (bytes after the IP-declared end are not part of it); a packet whose IP length "
    "field declares more than was received must reach the tun byte for byte",
    "fields the kernel rewrites: IPv4 total length / IPv6 payload length, IPv4 header checksum, TCP/UDP checksum, UDP length, and "
    "the IPv4 ID when DF is set (an ID with DF clear must survive); everything else, including TCP sequence number and flags, "
    "TOS / traffic class, TTL, and every payload byte inside the IP-declared length, must be the original's",
    "the kernel segmentation is the reference one of the harness (virtio NEEDS_CSUM + GSO: header of the superpacket copied, "
    "ID+i, seq+offset, CWR first only, FIN/PSH last only, checksums adjusted from the seed in the superpacket's checksum field, "
    "UDP length adjusted from the superpacket's UDP length field); it is cross-checked with virtio.SegmentTCP/SegmentUDP",
    "geometry the kernel accepts: >= 1 payload fragment, none empty, all but the last of the size of the first, the last not "
    "longer, at most 64 fragments (UDP_MAX_SEGMENTS; the statement gives no number), header + payload <= 65535 bytes, IP length "
    "fields / IPv4 header checksum / pseudo-header seed / UDP length of the superpacket header correct",
    "input packets carry valid checksums (or none: IPv4 UDP); all of them are packets newPacket accepts; the ParsedPacket handed "
    "to Commit is the one newPacket computes (IPv6 chains walked by iputil.IPv6FindUpperProtocol itself)",
    "counters are distinct within a session (the replay window guarantees it)",
]


def parse_dump(path):
    """TLC -dump of a specification whose state holds only integers, strings and tuples: <<..>> -> JSON lists."""
    out = []
    with open(path) as f:
        text = f.read()
    for blk in re.split(r'^State \d+:.*$', text, flags=re.M):
        blk = blk.strip()
        if not blk:
            continue
        st = {}
        for m in re.finditer(r'/\\ (\w+) = (.*?)(?=\n/\\ |\Z)', blk, flags=re.S):
            v = m.group(2).replace('<<', '[').replace('>>', ']').replace('TRUE', 'true').replace('FALSE', 'false')
            st[m.group(1)] = json.loads(v)
        out.append(st)
    return out


def run(ctx):
    d = ctx.spec_dir()
    cfg = open(d + '/Vec_Coalesce.cfg').read()
    tcfg = open(d + '/Trace_Coalesce.cfg').read()
    if not ctx.quick:
        cfg = cfg.replace('Thorough = FALSE', 'Thorough = TRUE')
        # Layer 2 as found at the pinned commit (information only, never a verdict: HOWTO rule 1)
        r = ctx.tlc('Coalesce', 'MC_Coalesce_aswritten.cfg', expect_ok=False, count=False, timeout=900)
        if r['rc'] == 124:
            raise MachineryError('TLC timeout on the as-written model')
        ctx.extra['model_of_udp_parse_as_written'] = {'satisfies_statement': r['ok'], 'violated': r['violated']}
    # ---- MC + vectors: one TLC state per batch, invariants checked on each
    dump = os.path.join(d, 'c23_vec')
    ctx.tlc('Coalesce', 'Vec_Coalesce_run.cfg', args=['-dump', dump], cfgtext=cfg, timeout=3000,
            java_opts='-XX:TieredStopAtLevel=1' if ctx.quick else None)
    path = dump + '.dump' if os.path.exists(dump + '.dump') else dump
    states = [s for s in parse_dump(path) if s['pk']]
    # TLC's workers dump in any order: canonical order, so that a run is a function of the tree and VERIF_SEED only
    states.sort(key=lambda s: (s['lane'], s['fam'], len(s['pk']), json.dumps(s['pk'])))
    os.remove(path)
    with open(os.path.join(ctx.scratch, 'vectors.ndjson'), 'w') as f:
        for s in states:
            f.write(json.dumps({k: s[k] for k in ('fam', 'lane', 'pk', 'arr', 'exp', 'bites')}, separators=(',', ':')) + '\n')
    n = len(states)
    ctx.extra['vectors'] = n
    ctx.samples.append({'vector': states[len(states) // 2]})
    # ---- the real coalescer
    res = ctx.gotest('overlay/batch', 'TestVerif_C23', timeout=3000)
    ctx.take_mismatches(res)
    for k in ('reference_vs_virtio_segmenter', 'machine_partition', 'observations'):
        ctx.extra[k] = res.get('extra', {}).get(k)
    for k, v in res.get('extra', {}).items():
        if k.startswith('machine_differs_'):
            ctx.extra[k] = v
    info = {}
    with open(os.path.join(res['_outdir'], 'obsinfo.ndjson')) as f:
        for ln in f:
            if ln.strip():
                o = json.loads(ln)
                info[o['n']] = o
    obsfile = os.path.join(res['_outdir'], 'obs.ndjson')
    shutil.copy(obsfile, os.path.join(d, 'c23_obs.ndjson'))
    # ---- every observation judged by TLC against the statement
    vd = os.path.join(d, 'c23_verdicts')
    r = ctx.tlc('Trace_Coalesce', 'Trace_Coalesce_run.cfg', args=['-dump', vd], cfgtext=tcfg, timeout=3000,
                java_opts='-XX:TieredStopAtLevel=1' if ctx.quick else None)
    path = vd + '.dump' if os.path.exists(vd + '.dump') else vd
    vstates = parse_dump(path)
    os.remove(path)
    lines = [s['exp'][1] for s in vstates if s['exp'][0] == 'line']
    verdicts = [s['exp'][1] for s in vstates if s['exp'][0] == 'verdict']
    if len(lines) != len(info) or sorted(lines) != list(range(1, len(info) + 1)):
        raise MachineryError('TLC judged %d observations, the harness wrote %d' % (len(lines), len(info)))
    if not verdicts:
        raise MachineryError('TLC produced no verdict')
    ctx.traces += len(lines)
    ctx.extra['judged'] = len(lines)
    obs = None
    per = {}
    for ln, v in sorted(verdicts):
        if ln == 0:
            continue
        if obs is None:
            obs = {}
            with open(obsfile) as f:
                for x in f:
                    if x.strip():
                        o = json.loads(x)
                        obs[o['n']] = o
        i = info[ln]
        multi, alt, order, geo, who = v
        cls = i['cls'][who - 1] if 1 <= who <= len(i['cls']) else 'unknown'
        why = (i.get('why') or {}).get(str(who), '')
        if geo != 'ok':
            key = 'geometry:%s:%s' % (geo, ':'.join(cls.split(':')[:2]))
            what = 'an offloaded write has a geometry the kernel refuses (%s%s)' % (geo, ': ' + i['why']['hdr'] if (i.get('why') or {}).get('hdr') else '')
        elif multi != 'ok':
            key, what = '%s:%s' % (multi, cls), 'packet %d (%s) is %s' % (who, cls, multi)
            if multi == 'alien':
                why = (i.get('why') or {}).get('0', '')
                what = 'a write carries something that is no packet of the batch'
        elif alt != 'ok':
            key = 'altered:%s:%s' % (':'.join(cls.split(':')[:2]), re.sub(r'[^a-z0-9-]+', '-', why.split(': ')[-1].lower()) or 'bytes')
            what = 'packet %d (%s) reaches the tun altered beyond the fields the kernel rewrites (%s)' % (who, cls, why)
        elif order != 'ok':
            key, what = 'reordered:%s' % cls, 'packet %d (%s) comes out after a later packet of its flow and session' % (who, cls)
        if i.get('err'):
            what += '; Commit/Flush returned: ' + i['err']
        per[key] = per.get(key, 0) + 1
        if per[key] <= 2:
            o = obs[ln]
            small = len(o['pk']) <= 12
            ctx.violation(key, 'observation %d (%s, arrival order %s): %s; batch %s; writes %s' %
                          (ln, i['src'], i['arr'] if small else '...', what, json.dumps(o['pk']) if small else '(%d packets)' % len(o['pk']),
                           json.dumps(i['parts']) if small else '(%d writes)' % len(i['parts'])),
                          {'verdict': v, 'observation': o, 'info': i})
    ctx.extra['violating_observations'] = per
    errs = [i for i in info.values() if i.get('err')]
    if errs and not ctx.violations:
        raise MachineryError('Commit/Flush failed on %d batches but no violation was derived: %s' % (len(errs), errs[0]['err']))
    if ctx.violations:
        return
    xc = ctx.extra.get('reference_vs_virtio_segmenter') or {}
    if xc.get('disagree'):
        raise MachineryError('the reference kernel segmentation disagrees with virtio.SegmentTCP/SegmentUDP on %d writes' % xc['disagree'])
    mp = ctx.extra.get('machine_partition') or {}
    if mp.get('differs'):
        print('NOTE: C23: the real writes differ from the machine of Coalesce.tla on %d vectors although the statement holds '
              '(mechanism changed; see evidence machine_differs_*)' % mp['differs'])
    need = ['V:lane:tcp', 'V:lane:udp', 'V:lane:mix', 'V:len1', 'V:len2', 'V:len3', 'V:session2', 'V:arrival-shuffled', 'T:random',
            'T:session2', 'model-refuses:noseq', 'model-refuses:notos', 'model-refuses:noseal', 'model-refuses:nocounter', 'write']
    for fam in (4, 6):
        for shape in ('plain', 'opt', 'frag', 'frag2', 'trunc', 'trail'):
            need += ['V:tcp%d:%s' % (fam, shape), 'V:udp%d:%s' % (fam, shape)]
        need += ['V:tcp%d:badoff' % fam, 'V:udp%d:l4short' % fam, 'V:other%d:plain' % fam, 'T:tcp%d:plain' % fam, 'T:udp%d:plain' % fam]
    if not ctx.quick:
        need.append('V:len4')
    ctx.require_actions(*need)


META = {
    'category': 'model_checking',
    'technique': 'TLA+ specification Coalesce.tla: statement-level relation Judge (multiset, per session-and-flow order with the '
                 'pure-ACK exception, geometry) + implementation-shaped machine (Commit*, Flush = sort by (epoch, counter), TCP / UDP '
                 'lanes with admission, open-slot map, canAppend, seal rules, passthrough, writes, reference kernel segmentation); '
                 'TLC checks the link on every batch of the lattice and that seeded bugs are refused; every batch is executed on the '
                 'real MultiCoalescer, the recorded writes re-segmented and projected, and TLC judges every observation',
    'text': 'Batches are built in TLC packet by packet (every prefix is a batch); the machine mirrors multi_coalesce.go / '
            'tcp_coalesce.go / udp_coalesce.go and is shown to satisfy the statement, while variants that forget the sequence check, '
            'the TOS compare, a seal, or the counter in the sort are shown to be refused. The harness builds real IPv4/IPv6 '
            'TCP/UDP/ICMP packets with tagged payloads, commits them in a permuted arrival order with real sort keys, records '
            'Write/WriteGSO, re-segments offloaded writes the way the kernel does (trusting the superpacket header exactly where the '
            'kernel does), and compares every resulting packet byte by byte with the original up to the fields the kernel rewrites. '
            'Seeded random batches of up to 300 packets at real sizes reach the 64-segment and 65535-byte limits. The verdict on '
            'every observation is computed by TLC from the abstract batch and the projected writes.',
    'design_ref': '3.9 C23',
    'note': 'Order across tunnel sessions is not part of the relation (weaker reading); it is counted as information '
            '(info:cross-session-order-changed). Whether packets are coalesced at all is free.',
}
