"""C27 — received offload superdatagrams split back exactly (spec/RecvSplit.tla, vector mode)."""
RULE = ("every element of RecvSplit.tla's grid is one TLC state: (len 0..40 x seg -2..42) at scale 1 and at real sizes "
        "(scales up to 1638, i.e. len up to 65520, sizes around the multiples), plus abstract ancillary buffers (sequences of "
        "control messages cut at every byte offset); TLC checks the machine against the statement on each; each vector is run "
        "on the real deliverSegments / parseRecvCmsg; distinct = distinct vectors. Loop: histories of 1..3 recvmmsg rounds over "
        "1-2 reused batch slots (each datagram coalesced with size S or plain, shorter / equal / longer than an S) are folded "
        "through the slot-state machine of RecvSplit.tla (ancillary buffer + msg_controllen left by the previous round) and "
        "played through the real StdConn.ListenOut on loopback sockets with UDP_GRO")
ASSUMPTIONS = [
    "an empty datagram with a positive coalescing size may be delivered as one empty piece or as no piece (the statement "
    "does not say); every other outcome is determined by the statement",
    "pieces are compared by length and content (position-dependent bytes), not by aliasing or capacity",
    "'never reads outside the ancillary data' is decided for the structured lattice and for seeded arbitrary buffers by "
    "placing the buffer against inaccessible pages on either side (a fault is a mismatch); it is not a proof for all buffers",
    "the kernel delivers at most one UDP_GRO control message; buffers with several are not in the lattice",
    "control message geometry is that of 64-bit Linux (16-byte header, 8-byte alignment)",
    "receive loop: the kernel interface is modelled as recvmmsg/udp_cmsg_recv behave (a datagram without coalescing size comes "
    "back with msg_controllen 0 and an untouched ancillary buffer; a size is only handed over if the msg_controllen found leaves "
    "room); the harness probes both facts on its own socket before it trusts the loop stage. Rounds are imposed by parking the "
    "loop in its flush callback while the next round's datagrams are queued (rmem_alloc observed); the verdict compares the "
    "piece stream datagram by datagram and does not depend on how the kernel really cut the rounds; one connection plays 40 "
    "histories in a row (opening a UDP_GRO socket costs milliseconds), so a history may start on slots a previous one used",
    "receive loop: only IPv4 loopback, Batch = 4, at most 2 slots filled per round, one reader goroutine per socket",
]


def run(ctx):
    from tools.check import MachineryError
    cfg = open(ctx.spec_dir() + '/Vec_RecvSplit.cfg').read()
    if not ctx.quick:
        cfg = cfg.replace('Thorough = FALSE', 'Thorough = TRUE')
    n = ctx.tlc_vectors('RecvSplit', 'Vec_RecvSplit_run.cfg', cfgtext=cfg, timeout=1500)
    ctx.extra['vectors'] = n
    res = ctx.gotest('udp', 'TestVerif_C27')
    ctx.take_mismatches(res)
    ctx.traces += n
    ctx.require_actions('split', 'split:exact-multiple', 'split:short-tail', 'split:zero', 'split:negative',
                        'split:above-length', 'split:equal-length', 'split:empty-datagram',
                        'anc:present', 'anc:missing', 'anc:random', 'split:random')
    # the receive loop on real loopback sockets (zz_verif_c27_loop_test.go)
    acts = res.get('actions', {})
    if acts.get('loop:no-gro') or not acts.get('loop:probe:superpacket-arrives-whole-with-size'):
        raise MachineryError('C27: this kernel / StdConn does not deliver UDP_GRO superdatagrams on loopback: the receive loop '
                             'cannot be decided here')
    ctx.extra['loop'] = {k: v for k, v in res.get('extra', {}).items() if k.startswith('loop_')}
    if not ctx.violations:
        if not acts.get('loop:probe:plain-leaves-ancillary-buffer'):
            raise MachineryError('C27: the kernel did not behave as RecvSplit.tla\'s Kernel operator says (plain datagram: '
                                 'msg_controllen 0, ancillary buffer untouched)')
        ctx.require_actions('loop', 'loop:plain:fresh-slot', 'loop:plain:stale-size-below-length',
                            'loop:plain:stale-size-not-below-length', 'loop:coalesced:fresh-slot',
                            'loop:coalesced:after-plain', 'loop:coalesced:after-coalesced',
                            'loop:second-slot:plain:stale-size-below-length', 'loop:second-slot:coalesced:after-plain')


META = {
    'category': 'model_checking',
    'technique': 'TLA+ function specification RecvSplit.tla (statement-level relation IsSplit, the loop of deliverSegments as '
                 'machine, link invariants); TLC enumerates the grid and the ancillary-buffer lattice, checks the link on every '
                 'vector, and every vector is executed on the real deliverSegments / parseRecvCmsg',
    'text': 'The statement is written as a relation between a piece sequence, the received length and the coalescing size; the '
            'loop of deliverSegments is transcribed next to it and TLC checks on every grid point that the loop yields the one '
            'sequence the statement admits (and that the rule is scale-invariant). The harness runs each grid point on the real '
            'function with position-dependent payload bytes and compares piece lengths, contents and sender. Where the size '
            'comes from is specified over abstract control-message sequences cut at every offset; the harness lays them out as '
            'real bytes against guard pages so that an access outside the buffer faults. The receive loop is specified as a '
            'machine over the reused batch slots (what a round leaves in a slot\'s ancillary buffer and msg_controllen) with the '
            'kernel\'s write-back rules; TLC checks that every datagram of every history is delivered as the statement says for '
            'the size of ITS round and that the link separates the wrong loop orders; the histories are played through the real '
            'ListenOut over real UDP_GRO loopback sockets.',
    'design_ref': '3.9 C27',
    'note': 'The grid is finite (the rule depends only on len, seg and their quotient/remainder); arbitrary ancillary bytes are '
            'sampled, not enumerated.',
}
