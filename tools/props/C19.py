"""C19 — tracked flows are revalidated after a rule reload (spec/Conntrack.tla)."""
import json, os, random
from tools.check import MachineryError
from tools.props import C18 as ct

RULE = ("MC: TLC proves on 1-2 flows, every rule set over their packets, a 3-valued version counter (so the wrap occurs) that the "
        "design (revalidate in the flow's original direction when versions differ; a wrap keeps the table and marks every flow "
        "stale) lets a tracked flow pass only if the current rules allow its original direction, forgets it otherwise, and that a "
        "reload with unchanged rules cuts nothing. R: one replayed step per edge on a real Interface.reloadFirewall / "
        "Firewall.Drop with real YAML (model wrap mapped to the real 16-bit wrap); at every unchanged-rules reload edge the code is "
        "compared with itself just before / just after. T: random histories with reloads (incl. the reload that wraps the 16-bit "
        "counter and a full turn of it: 65536 changed reloads, of which the wrapping and the last one are real and the others "
        "move the counter only, every flow tried at once afterwards) validated by TLC against the reference. "
        "Reload alphabet: rule sets; configurations [default_local_cidr_any, rule text, certificate with / without the node's unsafe "
        "network] with flows towards an own and an unsafe-network address")
ASSUMPTIONS = [
    "decided for the default single-routine configuration (routine-local conntrack cache off)",
    "idle expiry is C18's statement: here an established flow never expires in the reference (a packet the code refuses because "
    "of expiry is permitted, one it honours after any idle time is judged by the rules only)",
    "'a reload that changes nothing about the rules' = a reload whose firewall section differs only in a key that is not a rule "
    "(a byte-identical section is a no-op in the code and is exercised in T); it 'cuts a flow' when a packet that would have passed "
    "just before the reload is dropped just after it",
    "when a packet that a rule allows passes while its flow is established, either direction (the flow's or the packet's) may count "
    "as the flow's original direction afterwards",
    "the real 16-bit wrap is reached by shifting the version counter and the version of every tracked flow by the same amount "
    "in-package (the code only compares versions for equality and the counter with zero)",
    "reloads that change what unchanged rule text means are part of the reload alphabet: firewall.default_local_cidr_any is "
    "flipped both ways under rules without local_cidr, with a certificate that has an unsafe network and flows to an own and to "
    "an unsafe-network address (Conntrack.tla ReloadCfg / EffSemU); the flows are judged by the effective rules",
    "a change of the node's own unsafe networks is part of the reload alphabet (the quantifier names it): the certificate is renewed "
    "without / again with the unsafe network and reloadFirewall rebuilds the firewall from the new certificate with the conntrack "
    "table carried over, the firewall section being byte-identical or changed as well (Conntrack.tla SemCfgsU / EffSemU). Without "
    "the unsafe network nothing to or from its addresses is allowed by the current rules, whatever their text says; a flow towards "
    "such an address must not be honoured, and once a packet of it was refused it is forgotten like any other refused flow",
]


def run(ctx):
    rnd = random.Random(ctx.seed)
    plan = {'graphs': [], 'groups': [], 'traces': 30 if ctx.quick else 200, 'events': 50 if ctx.quick else 80, 'flows': 6,
            'reloads': True}
    ct.build_graphs(ctx, ['C19_1', 'C19_2', 'C19_semu'] if ctx.quick else ['C19_1', 'C19_2', 'C19_semux', 'C19_1t'], plan, rnd, max_len=40)
    ct.aswritten(ctx, 'MC_Conntrack_C19_aswritten.cfg', 'SameReloadKeeps')
    if not ctx.quick:
        ctx.tlc('Conntrack', 'MC_Conntrack_C19_2t.cfg', timeout=1500)
    groups = [[2, 1, 3]] if ctx.quick else [[2, 1, 3], [5, 2, 7], [720, 180, 600]]
    for to in groups:
        plan['groups'].append({'file': 'c19_trace_%d_%d_%d.ndjson' % tuple(to), 'to': to})
    with open(os.path.join(ctx.scratch, 'c19_plan.json'), 'w') as f:
        json.dump(plan, f)
    res = ctx.gotest('.', 'TestVerif_C19', also=('ct',))
    ctx.take_mismatches(res)
    ct.validate(ctx, res, plan, 'C19', idle_matters=False)
    if not ctx.violations:      # a violation ends its history early; vacuity only matters for a pass
        ctx.require_actions('Pkt', 'Reload', 'ReloadCfg', 'R:tour', 'R:twin', 'R:twin-option-flip', 'R:map:distinct', 'R:map:proto-only', 'R:map:unsafe-local',
                            'T:Reload-option-flip', 'T:Pkt', 'T:Reload', 'T:Reload-same',
                            'T:Reload-noop', 'T:Reload-wrap', 'T:Reload-full-turn', 'T:pass', 'T:drop',
                            # reloads that change the node's own unsafe networks (certificate renewed without / with them)
                            'R:reload:cert-unsafe-networks-only', 'R:reload:cert-unsafe-networks+section',
                            'R:reload:default_local_cidr_any', 'R:reload:rules', 'T:Reload-cert-unsafe')
    left = ctx.actions.get('R:left-tour', 0)
    ctx.extra['tours_left_early'] = left
    if not ctx.violations and left * 5 > ctx.actions.get('R:tour', 1):
        raise MachineryError('the code refuses packets the model passes on %d of %d tours: the machine layer of Conntrack.tla no '
                             'longer describes the code' % (left, ctx.actions.get('R:tour', 0)))


META = {
    'category': 'model_checking',
    'technique': 'TLA+ spec Conntrack.tla: TLC exhaustive check of rule-version revalidation incl. the version wrap; every state-graph '
                 'edge replayed on a real Interface.reloadFirewall/Firewall.Drop with real config strings; before/after comparison of '
                 'the code at every unchanged-rules reload; recorded random histories with reloads validated by TLC',
    'text': 'TLC enumerates all sequences of reloads (all rule sets over the packets of the flows, reverting included, a 3-valued '
            'version so that the wrap and the aliasing of old versions occur) interleaved with packets in both directions and checks '
            'that whatever passes is allowed by the current rules directly or through a flow whose opening direction is still allowed, '
            'and that unchanged-rules reloads cut nothing. Each transition is executed on the real reload path; the 16-bit wrap is '
            'reached by presetting the counter. The model of reloadFirewall as written (wrap drops the table) is also run and its '
            'counterexample recorded as context.',
    'design_ref': '3.7 C19',
    'note': 'Trusts TLC, the tours/trace tooling and the harness reading of the generated rules (cross-checked against the code).',
}
