"""C43 — encrypted private keys open only with the right passphrase; key PEM encodings round-trip and are refused under
the wrong banner (spec/KeyFile.tla, vector mode)."""
import os, sys, json
import tools.check
# bin/check runs tools.check as __main__: raise the class its `except` clause knows
MachineryError = getattr(sys.modules.get('__main__'), 'MachineryError', tools.check.MachineryError)

RULE = ("every vector of KeyFile.tla = (Marshal API that wrote the file: Marshal{Private,SigningPrivate,Public,SigningPublic}KeyToPEM / "
        "EncryptAndMarshalSigningPrivateKey x curve x KDF profile x passphrase class; alteration of the encoded file: none / banner "
        "replaced by each of the 15 other banners / every field of the encrypted message altered, dropped, duplicated / message "
        "truncated, extended, any one byte changed / the same decoded values in other bytes / PEM text variants and damage / raw key "
        "bytes altered; opener: each Unmarshal*FromPEM / DecryptAndUnmarshalSigningPrivateKey; passphrase: same / other / empty / "
        "extended / truncated / one bit) is one TLC state on which TLC checks that the code-shaped machine refines the statement; each "
        "is concretised on several seeded real keys per curve (real Argon2id + AES-256-GCM, salts and nonces from the seed), altered on "
        "the real bytes and opened by the real API: error or not, exact key bytes, curve and remainder are compared. Walk classes visit "
        "byte and bit positions (thorough: every byte of the protobuf message x 8 bits, of the raw key, of the PEM text; quick: every "
        "structural boundary + a seeded sample). distinct = vectors x key sets")
ASSUMPTIONS = [
    "'the encrypted data' is read as the decoded content of the encrypted message: algorithm, Argon2 version, memory, iterations, "
    "parallelism, salt, nonce, ciphertext, tag (what proto.Unmarshal yields; a byte string that is no message counts as altered). Any "
    "change of one of these values must be refused. A different byte representation of the SAME values (unknown protobuf field, "
    "duplicated identical field, over-long varint, bits above 2^32 in a 32-bit varint, reordered fields) and a different PEM text "
    "carrying the same block (line ends, wrapping, headers, text before/after, non-canonical base64) are not required to be refused: "
    "accept or refuse, but a returned key must be exactly the original one. VERIF_C43_STRICT=1 switches to the stronger reading in which "
    "re-encodings of the message must be refused too (the unchanged tree fails it: proto.Unmarshal keeps unknown fields)",
    "'refused under the wrong banner': an opener must refuse every file whose banner is not of its own kind (ECDH private / signing "
    "private / ECDH public / signing public / encrypted signing private) and DecryptAndUnmarshalSigningPrivateKey must refuse the other "
    "curve's ENCRYPTED banner. A plain file relabelled with the other curve's banner of the SAME kind is byte-identical to a file "
    "Marshal writes for that curve: if the length fits the curve it is that curve's key (accept), otherwise nothing is demanded",
    "'refused' = the API returns an error; the remainder is compared only when a key is returned (= the text after the first block as "
    "encoding/pem sees it)",
    "'KDF parameters within bounds': memory, iterations >= 1, 1 <= parallelism <= 255 as unmarshalArgon2Parameters enforces them; "
    "exercised with (1,1,1), (136 KiB,2,4), (1,1,255) and the nebula-cert defaults 64 MiB/3/4 (2 GiB/1/4 in the thorough tier or with "
    "VERIF_C43_DEF64=1); the 2^32-1 upper bounds are not reachable",
    "what an altered file MEANS is decided by encoding/pem and proto.Unmarshal (trusted), never by the code under test; a constructed "
    "alteration that is not of the class the specification says ends with exit 2 (drift), never exit 1",
    "keys: seeded real x25519 / ed25519 / P-256 keys plus all-zero and all-0xff byte strings (the PEM layer does not validate keys); "
    "wrong-length keys handed to the Marshal APIs are outside the statement",
]


def run(ctx):
    cfg = open(os.path.join(ctx.spec_dir(), 'Vec_KeyFile.cfg')).read()
    strict = os.environ.get('VERIF_C43_STRICT') == '1'
    if not ctx.quick:
        cfg = cfg.replace('Thorough = FALSE', 'Thorough = TRUE')
    if not ctx.quick or os.environ.get('VERIF_C43_DEF64') == '1':
        cfg = cfg.replace('Def64 = FALSE', 'Def64 = TRUE')
    if strict:
        # the code-shaped machine does not refine the strong reading (that is the point of the switch)
        cfg = cfg.replace('StrictBytes = FALSE', 'StrictBytes = TRUE').replace('MachineRefines ', '')
    n = ctx.tlc_vectors('KeyFile', 'Vec_KeyFile_run.cfg', out='c43_vectors.ndjson', cfgtext=cfg, timeout=900,
                        java_opts='-XX:TieredStopAtLevel=1' if ctx.quick else None)
    ctx.extra['vectors'] = n
    ctx.extra['strict_bytes'] = strict
    # every alteration class of the lattice has to reach the real code
    classes = set()
    with open(os.path.join(ctx.scratch, 'c43_vectors.ndjson')) as f:
        for line in f:
            v = json.loads(line)['in']
            classes.add('alt:%s:%s' % (v['op'], '*' if v['op'] == 'banner' else v['arg']))
    res = ctx.gotest('cert', 'TestVerif_C43', timeout=3000)
    if res['_rc'] != 0:
        raise MachineryError('harness TestVerif_C43 failed:\n%s' % res['_stdout'][-3000:])
    ctx.take_mismatches(res)
    ctx.traces += n
    extra = res.get('extra') or {}
    ctx.extra['notes'] = extra.get('notes')
    ctx.extra['key_sets'] = extra.get('key_sets')
    ctx.extra['opener_calls'] = extra.get('opener_calls')
    drift = extra.get('drift') or []
    ctx.extra['drift'] = drift
    if ctx.violations:
        return
    if drift:
        raise MachineryError('constructed alterations are not of the class KeyFile.tla says (%d), e.g. %s' % (len(drift), drift[0]))
    # conditional classes: a single changed bit that leaves the decoded values / the PEM block unchanged may not exist;
    # non-canonical base64 padding needs a body length that is no multiple of 3
    optional = {'alt:reenc:flip:same', 'alt:pem:flip:same'}
    ctx.require_actions(*sorted(classes - optional))
    ctx.require_actions(*['accepted:%s/%s' % (m, c) for m in ('priv', 'spriv', 'pub', 'spub', 'enc') for c in ('25519', 'p256')])
    ctx.require_actions(*['opener:%s' % o for o in ('priv', 'spriv', 'pub', 'spub', 'dec')])
    ctx.require_actions(*['pass:%s' % r for r in ('other', 'empty', 'ext', 'ext0', 'trunc', 'bit')])
    ctx.require_actions(*['walk:%s' % r for r in ('meta.hdr', 'alg.hdr', 'alg', 'argon.hdr', 'ver.hdr', 'ver', 'mem.hdr', 'mem', 'it.hdr', 'it',
                                                   'par.hdr', 'par', 'salt.hdr', 'salt', 'blob.hdr', 'nonce', 'ct', 'tag')])
    ctx.require_actions('refused:field', 'refused:wire', 'refused:banner', 'refused:none')


META = {
    'category': 'model_checking',
    'technique': 'TLA+ function specification KeyFile.tla: key files as terms [banner, raw key | encrypted message with symbolic '
                 '(Dolev-Yao) Argon2id/AES-GCM], alterations as term rewrites, reference Expected from the statement and a code-shaped '
                 'machine (PEM block, banner switch, protobuf parse, parameter bounds, algorithm, KDF, AEAD open, length per curve); TLC '
                 'checks on every vector that the machine refines the reference; every vector executed on the real key-file APIs with '
                 'real keys, real Argon2id and AES-GCM, alterations applied to the real bytes',
    'text': 'The key-file formats (banner table, key lengths, encrypted message) are transcribed into TLA+ with symbolic cryptography. '
            'TLC enumerates writer x curve x KDF profile x passphrase x alteration x opener, checks the link invariants (accepts only '
            'with the same passphrase, unaltered data and the right banner; round trip; wrong banner refused) and emits the expected '
            'verdict per vector. The harness writes each file with the real Marshal/Encrypt API, alters the real bytes (own protobuf '
            'writer; byte/bit walks over the message, the raw key and the PEM text) and compares the real opener with the verdict.',
    'design_ref': '3.10 C43',
    'note': 'Symbolic cryptography: that Argon2id/AES-GCM themselves are collision-free/unforgeable is assumed, not checked; what is '
            'checked is that every input of the KDF and every byte of nonce, ciphertext and tag is really bound (one changed bit at a time, '
            'plus structural alterations). Multi-bit forgeries, the 2^32-1 parameter bounds and interactive passphrase entry of nebula-cert '
            'are outside. Trusts TLC, encoding/pem and proto.Unmarshal as the meaning of altered bytes.',
}
