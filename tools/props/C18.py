"""C18 — tracked flows are per tuple and expire when idle (spec/Conntrack.tla, spec/TimerWheel.tla)."""
import collections, concurrent.futures, json, os, random, re
from tools import tours
from tools.check import MachineryError

RULE = ("MC: TLC proves on 2-3 flows (tcp/udp/default timeouts 3/1/2, 2/1/3 and 3/2/5 units, idle gaps 0..2x the largest timeout, one purge per lookup, "
        "wheel embedded) that the conntrack design with an expiry check on lookup lets a packet pass only if a rule allows it or an "
        "allowed packet of the same tuple passed no longer ago than its protocol's timeout. R: one replayed step per edge of the "
        "2-flow graphs on a real Firewall (NewFirewallFromConfig, Drop, virtual clock) under tuple maps that differ in exactly one "
        "key component; distinct = (graph, map, unit, edge). T: seeded random timed histories of 6 flows / 2 peers validated by TLC "
        "against the reference layer. Routine caches: the cache content, its per-routine tick version and the period are part of "
        "the modelled state; the graphs C18_cache1/2 (PktR = decided by conntrack/rules on a routine, PktCached = admitted from "
        "the routine's cache) are replayed on real ConntrackCacheTickers under virtual time at log levels info/debug/trace; two "
        "of three random histories run with 1-3 routines. Whole node (the callers): ConntrackNode.tla restricts Conntrack.tla to what "
        "one node with one pair of reader routines can do (the underlay reader judges every incoming packet, the tun reader every "
        "outgoing one, each with its own cache); TLC re-checks the invariants on three such graphs (two udp flows opened from "
        "either side, period = timeout; one udp flow opened by the peer and one tcp flow opened by the node, period 2 < timeout 3) "
        "and edge-covering walks of them are replayed on two complete nodes (nebula.Main in a synctest bubble, virtual time, "
        "units of 1 s and 100 ms, log levels info/debug/trace): node A has firewall.conntrack.routine_cache_timeout, the "
        "conntrack timeouts and exactly the model's rules, peer B allows everything; an incoming packet is sent by B through "
        "its tunnel and looked for on A's tun, an outgoing one is handed to A's tun and looked for as a data datagram leaving A "
        "(and on B's tun); distinct = (graph, unit, log level, edge)")
ASSUMPTIONS = [
    "decided for the default single-routine configuration (routine-local conntrack cache off: Drop is called with a nil cache) "
    "and for reader routines that each own a routine-local cache: one real firewall.ConntrackCacheTicker per routine, Get() per "
    "packet as inside.go / outside.go do, with the node's logger at info, debug, trace and discarding",
    "the routine cache period is at most the smallest conntrack timeout (defaults: 1 s against 3-12 min): a verdict served from a "
    "routine cache is then younger than every timeout and the statement applies without any slack (TLC proves this for the "
    "design). A period longer than a timeout is not decided: there a cached verdict is, by design, up to one period old",
    "idle time is measured from the last packet of the flow that passed; idle > timeout must be refused, idle <= timeout is not "
    "required to pass by this property",
    "a packet refused for a flow ends that flow (it is 'not honoured again until a rule allows a new packet')",
    "which packets the rules allow is taken from the harness' reading of the generated rules and cross-checked against the code on "
    "fresh firewalls (configurations on which they differ are not used; rule semantics are C16's subject)",
    "protocols: tcp, udp and icmp (the default timeout)",
    "whole-node stage: one pair of reader routines (routines: 1, all the in-process tun device of the e2e build offers), the "
    "routine-local cache switched on by firewall.conntrack.routine_cache_timeout with a period of at most the timeout of the "
    "protocols in the history, IPv4, udp and tcp flows between two nodes, no reload; time 0 of a history is the start of the "
    "node's reader routines, every packet is handled to completion before the next stimulus (one packet per read of either "
    "reader). Only a packet that leaves the node (or reaches its tun) although the statement forbids it is a verdict; a packet "
    "the node refuses although the model's machine passes it ends the walk and is reported as machinery (drift), never as a finding",
]

GRAPHS = {
    # (quick: the single-component maps of this graph always differ in the protocol as well; C18_uu runs them all)
    'C18_tu': {'protos': ['tcp', 'udp'], 'to': [3, 1, 2], 'verMod': 4, 'maps_quick': ['distinct', 'proto-only', 'peer-only']},
    'C18_uu': {'protos': ['udp', 'udp'], 'to': [2, 1, 3], 'verMod': 4},
    # reader routines with routine-local conntrack caches (real firewall.ConntrackCacheTicker per routine), replayed under
    # node log levels above and at trace: 1 flow / 2 routines / period 2 units (udp timeout 3: cache hits across instants);
    # 2 flows / 2 routines / period 1 unit (per-tuple content of the caches)
    'C18_cache1': {'protos': ['udp'], 'to': [1, 3, 2], 'verMod': 4, 'routines': 2, 'cachePeriod': 2,
                   'logs': ['info', 'trace', 'debug'], 'maps': ['distinct']},
    'C18_cache2': {'protos': ['udp', 'udp'], 'to': [2, 1, 3], 'verMod': 4, 'routines': 2, 'cachePeriod': 1,
                   'logs': ['info', 'trace'], 'maps': ['lport-only']},
    'C19_1': {'protos': ['udp'], 'to': [2, 1, 3], 'verMod': 3, 'maps': ['distinct']},
    'C19_1t': {'protos': ['udp'], 'to': [2, 1, 3], 'verMod': 3},
    'C19_2': {'protos': ['tcp', 'udp'], 'to': [2, 1, 3], 'verMod': 3, 'maps': ['distinct', 'proto-only']},
    # reloads named by the configuration [any, txt, un]: default_local_cidr_any, the rule text, and whether the node's
    # certificate carries the unsafe network (flow 1 goes to an own address, flow 2 to an address in that network)
    'C19_semu': {'protos': ['udp', 'udp'], 'to': [2, 1, 3], 'verMod': 3, 'sem': True},
    'C19_semux': {'protos': ['udp', 'udp'], 'to': [2, 1, 3], 'verMod': 3, 'sem': True},
}


def build_graphs(ctx, names, plan, rnd, max_len=60):
    for name in names:
        dot = os.path.join(ctx.spec_dir(), 'ct_%s.dot' % name)
        ctx.tlc('Conntrack', 'MC_Conntrack_%s.cfg' % name, args=['-dump', 'dot,actionlabels', dot], workers=1)  # 1 worker: reproducible edge order
        out = 'ct_graph_%s.json' % name
        st = tours.build(dot, os.path.join(ctx.scratch, out), max_len=max_len, rnd=rnd,
                         keep_vars={'res', 'may', 'why', 'ver', 'rules', 'conns', 'cfg'})
        os.remove(dot)
        if st['edges_covered'] != st['edges']:
            raise MachineryError('edge cover incomplete for %s: %s' % (name, st))
        ctx.extra.setdefault('graphs', {})[name] = st
        g = dict(GRAPHS[name])
        if ctx.quick and g.get('maps_quick'):
            g['maps'] = g['maps_quick']
        g.pop('maps_quick', None)
        g['file'] = out
        plan['graphs'].append(g)


# whole-node stage (spec/ConntrackNode.tla): the state graphs a complete node with one pair of reader routines can walk.
# uu1: flow 1 (udp) opened by the peer, flow 2 (udp) by the node, cache period 1 unit = the udp timeout (cache hits inside
# one instant only); u2: one udp flow opened by the peer, period 2 < timeout 3 (cache hits across instants, judged by the
# tun reader); t2: one tcp flow opened by the node (judged by the underlay reader)
NODE_GRAPHS = {
    'uu1': {'protos': ['udp', 'udp'], 'to': [2, 1, 3], 'cachePeriod': 1},
    'u2': {'protos': ['udp'], 'to': [1, 3, 2], 'cachePeriod': 2},
    't2': {'protos': ['tcp'], 'to': [3, 1, 2], 'cachePeriod': 2},
}


def covering_walks(init, edges, rnd, chunk, max_units=1200):
    """Walks from the initial state that together contain every edge: follow uncovered edges, and when the current state
    has none left take the shortest path to the nearest state that has; a walk ends after `chunk` steps or `max_units`
    units of model time (the nodes' tunnel housekeeping stays out of the picture)."""
    def units(es):
        return sum(edges[ei][3][0] for ei in es if edges[ei][2] == 'Sleep')
    out = collections.defaultdict(list)
    for ei, e in enumerate(edges):
        out[e[0]].append(ei)
    for v in out.values():
        rnd.shuffle(v)
    left = {s: list(v) for s, v in out.items()}        # uncovered out-edges per state
    todo = len(edges)
    walks = []
    while todo:
        cur, walk, spent = init, [], 0
        while todo and len(walk) < chunk and spent < max_units:
            if not left.get(cur):
                # breadth-first search for the nearest state with an uncovered out-edge
                prev = {cur: None}
                dq = collections.deque([cur])
                goal = None
                while dq and goal is None:
                    u = dq.popleft()
                    for ei in out[u]:
                        v = edges[ei][1]
                        if v not in prev:
                            prev[v] = ei
                            if left.get(v):
                                goal = v
                                break
                            dq.append(v)
                if goal is None:
                    break                               # the rest is only reachable from the initial state
                path = []
                u = goal
                while prev[u] is not None:
                    path.append(prev[u])
                    u = edges[prev[u]][0]
                path.reverse()
                walk += path
                spent += units(path)
                cur = goal
            ei = left[cur].pop()
            todo -= 1
            walk.append(ei)
            spent += units([ei])
            cur = edges[ei][1]
        if not walk:
            raise MachineryError('edges unreachable from the initial state')
        walks.append(walk)
    return walks


def node_stage(ctx, rnd):
    """Whole-node stage: edge-covering walks of the state graphs of ConntrackNode.tla replayed on complete nodes."""
    plan = {'graphs': []}
    chunk = 1500 if ctx.quick else 600
    covers = 1 if ctx.quick else 3
    # the three model-checking runs are independent: run them side by side (own dump file, own metadir each)
    def mc(name):
        dot = os.path.join(ctx.spec_dir(), 'ctn_%s.dot' % name)
        ctx.tlc('ConntrackNode', 'MC_ConntrackNode_%s.cfg' % name, args=['-dump', 'dot,actionlabels', dot], workers=1)  # 1 worker: reproducible edge order
        return dot
    ctx.spec_dir()
    with concurrent.futures.ThreadPoolExecutor(len(NODE_GRAPHS)) as ex:
        dots = dict(zip(NODE_GRAPHS, ex.map(mc, NODE_GRAPHS)))
    for name, g in NODE_GRAPHS.items():
        dot = dots[name]
        states, init, edges = tours.load_dot(dot, keep_vars={'res', 'may', 'why', 'rules'})
        os.remove(dot)
        if len(init) != 1:
            raise MachineryError('ConntrackNode %s: %d initial states' % (name, len(init)))
        walks = []
        for _ in range(covers):
            walks += covering_walks(init[0], edges, rnd, chunk)
        covered = set(ei for w in walks for ei in w)
        if len(covered) != len(edges):
            raise MachineryError('edge cover incomplete for ConntrackNode %s: %d of %d' % (name, len(covered), len(edges)))
        out = 'ct_node_%s.json' % name
        with open(os.path.join(ctx.scratch, out), 'w') as f:
            json.dump({'states': states, 'init': init, 'edges': edges, 'tours': walks}, f)
        rules = [{'f': r[0], 'inc': r[1]} for r in states[init[0]]['rules']]
        # consecutive walks alternate the time unit and rotate the node's log level (two against three: every pair occurs)
        plan['graphs'].append(dict(g, name=name, file=out, rules=rules, units=['1s', '100ms'], levels=['info', 'trace', 'debug']))
        ctx.extra.setdefault('node_graphs', {})[name] = {'states': len(states), 'edges': len(edges), 'walks': len(walks),
                                                          'steps': sum(len(w) for w in walks)}
    with open(os.path.join(ctx.scratch, 'c18_e2e_plan.json'), 'w') as f:
        json.dump(plan, f)
    res = ctx.gotest('e2e', 'TestVerif_C18E2E', tags='verif e2e_testing', also=('net',), timeout=600 if ctx.quick else 1800, name='e2e')
    ctx.take_mismatches(res)
    act = res.get('actions') or {}
    extra = res.get('extra') or {}
    for bad in ('e2e:no-tunnel', 'e2e:routine-cache-not-configured', 'e2e:rule-reading-differs', 'e2e:peer-did-not-send', 'e2e:bubble-panic'):
        if act.get(bad):
            raise MachineryError('whole-node stage: %s (%s)' % (bad, str({k: v for k, v in extra.items() if not k.startswith('e2e:left-walk')})[:1500]))
    left = act.get('e2e:left-walk', 0)
    ctx.extra['node_walks_left_early'] = left
    ctx.extra['node_cache_hits'] = {k: act.get('e2e:' + k, 0) for k in ('cache-hit', 'cache-hit-observed', 'cache-hit-not-observed', 'cache-hit-unexpected')}
    if not ctx.violations:      # a violation ends its walk early; vacuity only matters for a pass
        ctx.require_actions(*['e2e:graph:' + n for n in NODE_GRAPHS],
                            'e2e:routine-cache-enabled', 'e2e:in:underlay-reader', 'e2e:out:tun-reader',
                            'e2e:unit:1s', 'e2e:unit:100ms', 'e2e:log:info', 'e2e:log:trace', 'e2e:log:debug',
                            'e2e:allowed-by-rule-passed', 'e2e:untracked-refused',
                            # a reply let through by the tracked flow alone (and seen on the peer's tun), refused once the flow is idle
                            'e2e:reply-passed-while-alive', 'e2e:reply-arrived-at-peer', 'e2e:reply-refused-after-idle',
                            # admitted from a reader routine's cache: by the model, and observed on the node (the table entry
                            # was not refreshed although a look at the table would have moved its expiry)
                            'e2e:cache-hit', 'e2e:cache-hit-observed',
                            # the first packet a reader routine handles after a quiet period, of a flow that routine had cached
                            'e2e:first-packet-of-reader-after-quiet-period-refused', 'e2e:cached-flow-refused-after-quiet-period')
        if left:
            raise MachineryError('whole-node stage: the node refuses packets the model passes (or the reverse, permitted) on %d walks: '
                                 'ConntrackNode.tla no longer describes the node: %s'
                                 % (left, str({k: v for k, v in extra.items() if k.startswith('e2e:left-walk')})[:1500]))
        if act.get('e2e:walk-completed', 0) != act.get('e2e:walk', -1):
            raise MachineryError('whole-node stage: %d walks started, %d completed' % (act.get('e2e:walk', 0), act.get('e2e:walk-completed', 0)))


def aswritten(ctx, cfg, invariant):
    """TLC on the machine as the code is written today: documents the model-level counterexample (never a verdict)."""
    r = ctx.tlc('Conntrack', cfg, expect_ok=False, count=False, workers=2)
    ctx.extra.setdefault('model_of_code_as_written', {})[cfg] = {
        'violated': r['violated'], 'distinct': r['distinct'],
        'note': 'counterexample in the model only; the verdict comes from the replay on the real code'}
    if r['ok'] is False and r['violated'] not in (invariant,):
        raise MachineryError('TLC failed on %s: %s' % (cfg, r['out'][-1500:]))


def validate(ctx, res, plan, prop, idle_matters=True):
    base = open(os.path.join(ctx.spec_dir(), 'Trace_Conntrack.cfg')).read()
    for g in plan['groups']:
        cfg = base.replace('TcpT = 2', 'TcpT = %d' % g['to'][0]).replace('UdpT = 1', 'UdpT = %d' % g['to'][1]) \
                  .replace('OthT = 3', 'OthT = %d' % g['to'][2]).replace('MaxFlow = 6', 'MaxFlow = %d' % plan['flows']) \
                  .replace('IdleMatters = TRUE', 'IdleMatters = %s' % ('TRUE' if idle_matters else 'FALSE'))
        fails, ok = ctx.validate_traces('Trace_Conntrack', 'Trace_Conntrack_%s.cfg' % re.sub(r'\W', '_', g['file']),
                                        os.path.join(res['_outdir'], g['file']), cfgtext=cfg, max_fail=2)
        for fl in fails:
            ln = fl['line']
            f = ln.get('f', 0)
            proto = ['other', 'tcp', 'udp'][f % 3]
            # word the finding from the history of that flow in the rejected trace (the verdict itself is TLC's)
            to = g['to'][[2, 0, 1][f % 3]]
            now, est, last, ever = 0, False, 0, False
            cert_unsafe, unsafe_flows, unroutable = True, [], False
            for e in (fl['trace'][:-1] if fl.get('trace') else fl['context']):
                if e.get('ev') == 'reset':
                    now, est, last, ever = 0, False, 0, False
                    cert_unsafe, unsafe_flows, unroutable = e.get('cert_unsafe', True), e.get('unsafe_flows', []), False
                elif e.get('ev') == 'Sleep':
                    now += e['d']
                elif e.get('ev') == 'Reload':
                    cert_unsafe = e.get('cert_unsafe', True)
                elif e.get('ev') == 'Pkt' and e.get('f') == f:
                    est = bool(e.get('pass'))
                    ever = ever or est
                    last = now if est else last
                    # refused while the certificate had no unsafe network and the flow's node-side address lies in it
                    unroutable = (not est) and (unroutable or (not cert_unsafe and f in unsafe_flows))
            if not est and ever and unroutable:
                key, what = 'trace:ended-flow-honoured:refused-while-unsafe-network-absent', \
                    'no rule allows it and its flow had ended: a packet of it was refused while the certificate did not carry the ' \
                    'unsafe network of its node-side address (Drop refuses on the local address without forgetting the tracked flow)'
            elif not est and ever:
                key, what = 'trace:ended-flow-honoured:%s' % proto, \
                    'no rule allows it and its flow had ended (a packet of it was refused since it last passed)'
            elif not est:
                key, what = 'trace:untracked-tuple-honoured', 'no rule allows it and no packet of this tuple ever passed'
            elif idle_matters and now - last > to:
                key, what = 'trace:expired-flow-honoured:%s' % proto, \
                    'no rule allows it and its flow was idle for %d units, longer than the %s timeout (%d units)' % (now - last, proto, to)
            else:
                key, what = 'trace:flow-not-revalidated', 'the current rules allow neither it nor the direction in which its flow was opened'
            if ln.get('via'):       # the verdict came from a routine-local conntrack cache
                key += ':from-' + ln['via']
            ctx.violation(key, 'recorded verdict %s: the packet passed although %s' % (json.dumps(ln), what), fl)


def run(ctx):
    rnd = random.Random(ctx.seed)
    plan = {'graphs': [], 'groups': [], 'traces': 30 if ctx.quick else 200, 'events': 50 if ctx.quick else 80, 'flows': 6,
            'reloads': False}
    build_graphs(ctx, ['C18_tu', 'C18_uu', 'C18_cache1', 'C18_cache2'], plan, rnd)
    aswritten(ctx, 'MC_Conntrack_C18_aswritten.cfg', 'PassPermitted')
    if not ctx.quick:
        ctx.tlc('Conntrack', 'MC_Conntrack_C18_uut.cfg', timeout=2400)
        ctx.tlc('Conntrack', 'MC_Conntrack_C18_tuo.cfg', timeout=2400)
        ctx.tlc('Conntrack', 'MC_Conntrack_C18_cache2x.cfg', timeout=2400)    # 2 flows x 2 routines, cache hits across instants
    groups = [[2, 1, 3], [5, 2, 7]] if ctx.quick else [[2, 1, 3], [5, 2, 7], [3, 3, 3], [720, 180, 600]]
    for to in groups:
        # routine caches in the histories: period = the smallest timeout (the statement then applies without slack)
        plan['groups'].append({'file': 'c18_trace_%d_%d_%d.ndjson' % tuple(to), 'to': to, 'cachePeriod': min(to)})
    with open(os.path.join(ctx.scratch, 'c18_plan.json'), 'w') as f:
        json.dump(plan, f)
    res = ctx.gotest('.', 'TestVerif_C18', also=('ct',))
    ctx.take_mismatches(res)
    validate(ctx, res, plan, 'C18')
    if not ctx.violations:      # a violation ends its history early; vacuity only matters for a pass
        ctx.require_actions('Sleep', 'Pkt', 'R:tour', 'R:map:distinct', 'R:map:rport-only', 'R:map:lport-only', 'R:map:peer-only',
                            'R:map:local-only', 'R:map:proto-only', 'T:Pkt', 'T:pass', 'T:drop', 'T:long-idle',
                            # the routine-local cache: packets decided by conntrack on a routine, packets admitted from a
                            # routine's cache, under node log levels above and at trace
                            'PktR', 'PktCached', 'R:served-from-routine-cache', 'R:log:info', 'R:log:trace', 'R:log:debug',
                            'T:routine-cache', 'T:served-from-routine-cache', 'T:log:info', 'T:log:trace')
    left = ctx.actions.get('R:left-tour', 0)
    ctx.extra['tours_left_early'] = left
    if not ctx.violations and left * 5 > ctx.actions.get('R:tour', 1):
        raise MachineryError('the code refuses packets the model passes on %d of %d tours: the machine layer of Conntrack.tla no '
                             'longer describes the code' % (left, ctx.actions.get('R:tour', 0)))
    # the callers: the same statement where the reader routines of a complete node hand their caches to the firewall
    node_stage(ctx, random.Random(ctx.seed * 7919 + 18))


META = {
    'category': 'model_checking',
    'technique': 'TLA+ spec Conntrack.tla (+ embedded TimerWheel.tla): TLC exhaustive check that the conntrack machine with an expiry '
                 'check on lookup refines the per-tuple/idle-timeout reference; every state-graph edge replayed on a real Firewall '
                 'under a virtual clock (testing/synctest) with single-component tuple differences; recorded random timed histories '
                 'validated by TLC against the reference; edge-covering walks of the per-node restriction (ConntrackNode.tla) replayed on '
                 'complete nodes (nebula.Main x2, virtual time) with the routine-local conntrack cache enabled',
    'text': 'TLC enumerates all interleavings of packets of 2-3 flows in both directions with idle gaps below, at and above the TCP, '
            'UDP and default timeouts, with the lazy one-purge-per-lookup eviction through the timing wheel, and checks that a packet '
            'passes only when a rule allows it or its own tuple was seen recently enough. Each transition is executed on a real '
            'Firewall built from a real config; beyond the bounds, random histories (6 flows, 2 peers, 2 local addresses, idle up to '
            '1 h, with and without unrelated churn) are accepted or rejected by TLC. The model of the code as written (no look at '
            'Expires) is also run and its counterexample recorded as context. The callers are part of the check: the reader routines '
            'of a complete node (interface.go listenIn / listenOut, inside.go, outside.go) own the routine caches and decide when a '
            'cache handle is taken; every edge of the state graphs of ConntrackNode.tla (packets of peer-opened and node-opened flows '
            'in both directions, cache hits inside and across instants, quiet periods below, at and above the timeout) is driven '
            'through two real nodes and the packets that come out are compared with what the statement permits.',
    'design_ref': '3.7 C18',
    'note': 'Trusts TLC, the tours/trace tooling and the harness reading of the generated rules (cross-checked against the code, '
            'object level and whole node). Whole-node stage: one reader routine pair, in-process tun/udp devices of the e2e build '
            '(one packet per read); several routine pairs, real sockets and batched reads are not exercised.',
}
