"""C18 — tracked flows are per tuple and expire when idle (spec/Conntrack.tla, spec/TimerWheel.tla)."""
import json, os, random, re
from tools import tours
from tools.check import MachineryError

RULE = ("MC: TLC proves on 2-3 flows (tcp/udp/default timeouts 3/1/2, 2/1/3 and 3/2/5 units, idle gaps 0..2x the largest timeout, one purge per lookup, "
        "wheel embedded) that the conntrack design with an expiry check on lookup lets a packet pass only if a rule allows it or an "
        "allowed packet of the same tuple passed no longer ago than its protocol's timeout. R: one replayed step per edge of the "
        "2-flow graphs on a real Firewall (NewFirewallFromConfig, Drop, virtual clock) under tuple maps that differ in exactly one "
        "key component; distinct = (graph, map, unit, edge). T: seeded random timed histories of 6 flows / 2 peers validated by TLC "
        "against the reference layer. Routine caches: the cache content, its per-routine tick version and the period are part of "
        "the modelled state; the graphs C18_cache1/2 (PktR = decided by conntrack/rules on a routine, PktCached = admitted from "
        "the routine's cache) are replayed on real ConntrackCacheTickers under virtual time at log levels info/debug/trace; two "
        "of three random histories run with 1-3 routines")
ASSUMPTIONS = [
    "decided for the default single-routine configuration (routine-local conntrack cache off: Drop is called with a nil cache) "
    "and for reader routines that each own a routine-local cache: one real firewall.ConntrackCacheTicker per routine, Get() per "
    "packet as inside.go / outside.go do, with the node's logger at info, debug, trace and discarding",
    "the routine cache period is at most the smallest conntrack timeout (defaults: 1 s against 3-12 min): a verdict served from a "
    "routine cache is then younger than every timeout and the statement applies without any slack (TLC proves this for the "
    "design). A period longer than a timeout is not decided: there a cached verdict is, by design, up to one period old",
    "idle time is measured from the last packet of the flow that passed; idle > timeout must be refused, idle <= timeout is not "
    "required to pass by this property",
    "a packet refused for a flow ends that flow (it is 'not honoured again until a rule allows a new packet')",
    "which packets the rules allow is taken from the harness' reading of the generated rules and cross-checked against the code on "
    "fresh firewalls (configurations on which they differ are not used; rule semantics are C16's subject)",
    "protocols: tcp, udp and icmp (the default timeout)",
]

GRAPHS = {
    # (quick: the single-component maps of this graph always differ in the protocol as well; C18_uu runs them all)
    'C18_tu': {'protos': ['tcp', 'udp'], 'to': [3, 1, 2], 'verMod': 4, 'maps_quick': ['distinct', 'proto-only', 'peer-only']},
    'C18_uu': {'protos': ['udp', 'udp'], 'to': [2, 1, 3], 'verMod': 4},
    # reader routines with routine-local conntrack caches (real firewall.ConntrackCacheTicker per routine), replayed under
    # node log levels above and at trace: 1 flow / 2 routines / period 2 units (udp timeout 3: cache hits across instants);
    # 2 flows / 2 routines / period 1 unit (per-tuple content of the caches)
    'C18_cache1': {'protos': ['udp'], 'to': [1, 3, 2], 'verMod': 4, 'routines': 2, 'cachePeriod': 2,
                   'logs': ['info', 'trace', 'debug'], 'maps': ['distinct']},
    'C18_cache2': {'protos': ['udp', 'udp'], 'to': [2, 1, 3], 'verMod': 4, 'routines': 2, 'cachePeriod': 1,
                   'logs': ['info', 'trace'], 'maps': ['lport-only']},
    'C19_1': {'protos': ['udp'], 'to': [2, 1, 3], 'verMod': 3, 'maps': ['distinct']},
    'C19_1t': {'protos': ['udp'], 'to': [2, 1, 3], 'verMod': 3},
    'C19_2': {'protos': ['tcp', 'udp'], 'to': [2, 1, 3], 'verMod': 3, 'maps': ['distinct', 'proto-only']},
    # reloads named by the configuration [any, txt, un]: default_local_cidr_any, the rule text, and whether the node's
    # certificate carries the unsafe network (flow 1 goes to an own address, flow 2 to an address in that network)
    'C19_semu': {'protos': ['udp', 'udp'], 'to': [2, 1, 3], 'verMod': 3, 'sem': True},
    'C19_semux': {'protos': ['udp', 'udp'], 'to': [2, 1, 3], 'verMod': 3, 'sem': True},
}


def build_graphs(ctx, names, plan, rnd, max_len=60):
    for name in names:
        dot = os.path.join(ctx.spec_dir(), 'ct_%s.dot' % name)
        ctx.tlc('Conntrack', 'MC_Conntrack_%s.cfg' % name, args=['-dump', 'dot,actionlabels', dot], workers=1)  # 1 worker: reproducible edge order
        out = 'ct_graph_%s.json' % name
        st = tours.build(dot, os.path.join(ctx.scratch, out), max_len=max_len, rnd=rnd,
                         keep_vars={'res', 'may', 'why', 'ver', 'rules', 'conns', 'cfg'})
        os.remove(dot)
        if st['edges_covered'] != st['edges']:
            raise MachineryError('edge cover incomplete for %s: %s' % (name, st))
        ctx.extra.setdefault('graphs', {})[name] = st
        g = dict(GRAPHS[name])
        if ctx.quick and g.get('maps_quick'):
            g['maps'] = g['maps_quick']
        g.pop('maps_quick', None)
        g['file'] = out
        plan['graphs'].append(g)


def aswritten(ctx, cfg, invariant):
    """TLC on the machine as the code is written today: documents the model-level counterexample (never a verdict)."""
    r = ctx.tlc('Conntrack', cfg, expect_ok=False, count=False, workers=2)
    ctx.extra.setdefault('model_of_code_as_written', {})[cfg] = {
        'violated': r['violated'], 'distinct': r['distinct'],
        'note': 'counterexample in the model only; the verdict comes from the replay on the real code'}
    if r['ok'] is False and r['violated'] not in (invariant,):
        raise MachineryError('TLC failed on %s: %s' % (cfg, r['out'][-1500:]))


def validate(ctx, res, plan, prop, idle_matters=True):
    base = open(os.path.join(ctx.spec_dir(), 'Trace_Conntrack.cfg')).read()
    for g in plan['groups']:
        cfg = base.replace('TcpT = 2', 'TcpT = %d' % g['to'][0]).replace('UdpT = 1', 'UdpT = %d' % g['to'][1]) \
                  .replace('OthT = 3', 'OthT = %d' % g['to'][2]).replace('MaxFlow = 6', 'MaxFlow = %d' % plan['flows']) \
                  .replace('IdleMatters = TRUE', 'IdleMatters = %s' % ('TRUE' if idle_matters else 'FALSE'))
        fails, ok = ctx.validate_traces('Trace_Conntrack', 'Trace_Conntrack_%s.cfg' % re.sub(r'\W', '_', g['file']),
                                        os.path.join(res['_outdir'], g['file']), cfgtext=cfg, max_fail=2)
        for fl in fails:
            ln = fl['line']
            f = ln.get('f', 0)
            proto = ['other', 'tcp', 'udp'][f % 3]
            # word the finding from the history of that flow in the rejected trace (the verdict itself is TLC's)
            to = g['to'][[2, 0, 1][f % 3]]
            now, est, last, ever = 0, False, 0, False
            cert_unsafe, unsafe_flows, unroutable = True, [], False
            for e in (fl['trace'][:-1] if fl.get('trace') else fl['context']):
                if e.get('ev') == 'reset':
                    now, est, last, ever = 0, False, 0, False
                    cert_unsafe, unsafe_flows, unroutable = e.get('cert_unsafe', True), e.get('unsafe_flows', []), False
                elif e.get('ev') == 'Sleep':
                    now += e['d']
                elif e.get('ev') == 'Reload':
                    cert_unsafe = e.get('cert_unsafe', True)
                elif e.get('ev') == 'Pkt' and e.get('f') == f:
                    est = bool(e.get('pass'))
                    ever = ever or est
                    last = now if est else last
                    # refused while the certificate had no unsafe network and the flow's node-side address lies in it
                    unroutable = (not est) and (unroutable or (not cert_unsafe and f in unsafe_flows))
            if not est and ever and unroutable:
                key, what = 'trace:ended-flow-honoured:refused-while-unsafe-network-absent', \
                    'no rule allows it and its flow had ended: a packet of it was refused while the certificate did not carry the ' \
                    'unsafe network of its node-side address (Drop refuses on the local address without forgetting the tracked flow)'
            elif not est and ever:
                key, what = 'trace:ended-flow-honoured:%s' % proto, \
                    'no rule allows it and its flow had ended (a packet of it was refused since it last passed)'
            elif not est:
                key, what = 'trace:untracked-tuple-honoured', 'no rule allows it and no packet of this tuple ever passed'
            elif idle_matters and now - last > to:
                key, what = 'trace:expired-flow-honoured:%s' % proto, \
                    'no rule allows it and its flow was idle for %d units, longer than the %s timeout (%d units)' % (now - last, proto, to)
            else:
                key, what = 'trace:flow-not-revalidated', 'the current rules allow neither it nor the direction in which its flow was opened'
            if ln.get('via'):       # the verdict came from a routine-local conntrack cache
                key += ':from-' + ln['via']
            ctx.violation(key, 'recorded verdict %s: the packet passed although %s' % (json.dumps(ln), what), fl)


def run(ctx):
    rnd = random.Random(ctx.seed)
    plan = {'graphs': [], 'groups': [], 'traces': 30 if ctx.quick else 200, 'events': 50 if ctx.quick else 80, 'flows': 6,
            'reloads': False}
    build_graphs(ctx, ['C18_tu', 'C18_uu', 'C18_cache1', 'C18_cache2'], plan, rnd)
    aswritten(ctx, 'MC_Conntrack_C18_aswritten.cfg', 'PassPermitted')
    if not ctx.quick:
        ctx.tlc('Conntrack', 'MC_Conntrack_C18_uut.cfg', timeout=2400)
        ctx.tlc('Conntrack', 'MC_Conntrack_C18_tuo.cfg', timeout=2400)
        ctx.tlc('Conntrack', 'MC_Conntrack_C18_cache2x.cfg', timeout=2400)    # 2 flows x 2 routines, cache hits across instants
    groups = [[2, 1, 3], [5, 2, 7]] if ctx.quick else [[2, 1, 3], [5, 2, 7], [3, 3, 3], [720, 180, 600]]
    for to in groups:
        # routine caches in the histories: period = the smallest timeout (the statement then applies without slack)
        plan['groups'].append({'file': 'c18_trace_%d_%d_%d.ndjson' % tuple(to), 'to': to, 'cachePeriod': min(to)})
    with open(os.path.join(ctx.scratch, 'c18_plan.json'), 'w') as f:
        json.dump(plan, f)
    res = ctx.gotest('.', 'TestVerif_C18', also=('ct',))
    ctx.take_mismatches(res)
    validate(ctx, res, plan, 'C18')
    if not ctx.violations:      # a violation ends its history early; vacuity only matters for a pass
        ctx.require_actions('Sleep', 'Pkt', 'R:tour', 'R:map:distinct', 'R:map:rport-only', 'R:map:lport-only', 'R:map:peer-only',
                            'R:map:local-only', 'R:map:proto-only', 'T:Pkt', 'T:pass', 'T:drop', 'T:long-idle',
                            # the routine-local cache: packets decided by conntrack on a routine, packets admitted from a
                            # routine's cache, under node log levels above and at trace
                            'PktR', 'PktCached', 'R:served-from-routine-cache', 'R:log:info', 'R:log:trace', 'R:log:debug',
                            'T:routine-cache', 'T:served-from-routine-cache', 'T:log:info', 'T:log:trace')
    left = ctx.actions.get('R:left-tour', 0)
    ctx.extra['tours_left_early'] = left
    if not ctx.violations and left * 5 > ctx.actions.get('R:tour', 1):
        raise MachineryError('the code refuses packets the model passes on %d of %d tours: the machine layer of Conntrack.tla no '
                             'longer describes the code' % (left, ctx.actions.get('R:tour', 0)))


META = {
    'category': 'model_checking',
    'technique': 'TLA+ spec Conntrack.tla (+ embedded TimerWheel.tla): TLC exhaustive check that the conntrack machine with an expiry '
                 'check on lookup refines the per-tuple/idle-timeout reference; every state-graph edge replayed on a real Firewall '
                 'under a virtual clock (testing/synctest) with single-component tuple differences; recorded random timed histories '
                 'validated by TLC against the reference',
    'text': 'TLC enumerates all interleavings of packets of 2-3 flows in both directions with idle gaps below, at and above the TCP, '
            'UDP and default timeouts, with the lazy one-purge-per-lookup eviction through the timing wheel, and checks that a packet '
            'passes only when a rule allows it or its own tuple was seen recently enough. Each transition is executed on a real '
            'Firewall built from a real config; beyond the bounds, random histories (6 flows, 2 peers, 2 local addresses, idle up to '
            '1 h, with and without unrelated churn) are accepted or rejected by TLC. The model of the code as written (no look at '
            'Expires) is also run and its counterexample recorded as context.',
    'design_ref': '3.7 C18',
    'note': 'Trusts TLC, the tours/trace tooling and the harness reading of the generated rules (cross-checked against the code).',
}
