"""C17 — overlay source and destination addresses are authentic (spec/Firewall.tla: MC of the Drop machine + vector mode)."""
from tools.props.C16 import fw_vectors
from tools.check import MachineryError

RULE = ("MC: TLC explores the Drop machine (address guard, routine cache, conntrack, rule tables) from every conntrack and "
        "cache content and checks 'allow => Authentic' in every state. V: every attack vector of Firewall.tla (peer x owner of "
        "the remote address x remote class x node-side class x direction x rule set x how the tuple got tracked: real flow of "
        "the owner in either direction / injected conntrack entry / routine-cache entry) is executed on a real Firewall with "
        "real HostInfo.buildNetworks; distinct = distinct vectors. Call sites: AddrE2E.tla enumerates inner packets (direction x "
        "sending peer x 9 remote address classes x 5 node-side classes x with/without a prior flow of the address' owner x written "
        "as IPv4 or as IPv4-mapped addresses of an IPv6 packet) for a "
        "complete node T with allow-everything rules; in: sent by real peers inside their own tunnels (own outbound firewall "
        "bypassed), T's tun output observed; out: handed to T's tun, the data datagrams T emits and their destinations observed")
ASSUMPTIONS = [
    "only the implication of the statement is judged: an allowed packet must carry authentic addresses; refusing an authentic "
    "packet is not a C17 matter (the code refuses a certified peer address outside my networks even when it lies inside the "
    "peer's own unsafe network; TLC's LinkGuard shows this is the only difference between the code's guard and the statement)",
    "decided for Firewall.Drop as inside.go/outside.go call it, with and without a routine-local conntrack cache",
    "a flow tracked for one peer may be used by another peer whose certificate covers the same addresses (same unsafe "
    "network): the statement allows it",
]


def run(ctx):
    cfg = open(ctx.spec_dir() + '/MC_Firewall_C17.cfg').read()
    if not ctx.quick:
        cfg = cfg.replace('Thorough = FALSE', 'Thorough = TRUE')
    ctx.tlc('Firewall', 'MC_Firewall_C17_run.cfg', cfgtext=cfg, timeout=900)
    n = fw_vectors(ctx, 'Vec_Firewall_C17.cfg')
    ctx.extra['vectors'] = n
    res = ctx.gotest('.', 'TestVerif_C17', also=('fw',), timeout=1200)
    ctx.take_mismatches(res)
    ctx.traces += n
    if not ctx.violations:      # a violation is a verdict; vacuity only matters for a pass
        ctx.require_actions('universe', 'prior-flow-tracked', 'conntrack-injected', 'cache-injected', 'authentic-allowed',
                            'authentic-allowed-by-tracked-flow', 'spoof-refused', 'spoof-refused-despite-tracked-flow',
                            'spoofed-remote-refused', 'spoofed-local-refused')
    # call-site level: the same statement on complete nodes (spec/AddrE2E.tla)
    n2 = ctx.tlc_vectors('AddrE2E', 'Vec_AddrE2E.cfg', out='vectors_e2e.ndjson')
    ctx.extra['vectors_e2e'] = n2
    res2 = ctx.gotest('e2e', 'TestVerif_C17E2E', tags='verif e2e_testing', also=('net',), timeout=600 if ctx.quick else 1200, name='e2e')
    ctx.take_mismatches(res2)
    ctx.traces += n2
    drifts = {k: v for k, v in (res2.get('extra') or {}).items() if k.startswith('drift:')}
    ctx.extra['e2e_authentic_but_refused'] = sorted(drifts)[:40]
    if not ctx.violations:
        ctx.require_actions('dir:in', 'dir:out', 'in:delivered', 'in:spoof-refused', 'in:spoof-refused-after-owner-flow', 'prior-flow-delivered',
                            'out:sent', 'out:spoof-refused', 'r:M-unsafe', 'r:D-out', 'l:unsafe', 'enc:mapped')
        if (res2.get('actions') or {}).get('no-tunnel:M') or (res2.get('actions') or {}).get('no-tunnel:D'):
            raise MachineryError('the tunnels of the whole-node scenario could not be established')
    dis = (res.get('extra') or {}).get('machine_disagreements', 0)
    ctx.extra['machine_disagreements'] = dis
    if dis and not ctx.violations:
        raise MachineryError('the Drop machine of Firewall.tla no longer describes firewall.go (%d verdicts differ, none of them '
                             'a C17 violation): %s' % (dis, str((res.get('extra') or {}).get('machine_disagreement_samples'))[:1500]))


META = {
    'category': 'model_checking',
    'technique': 'TLA+ model of Firewall.Drop (guard -> cache -> conntrack -> tables) checked by TLC from arbitrary conntrack/cache '
                 'content with invariant allow => Authentic; attack vectors from the same module executed on a real Firewall',
    'text': 'Authenticity of both addresses is defined from the certificates (reference); the code-shaped guard '
            '(buildNetworks + longest-prefix lookup, routableNetworks) is linked to it by TLC. The harness replays every attack '
            'class on a real Firewall: spoofed remote and node-side addresses, multi-address peers, addresses outside my networks, '
            'unsafe networks, tuples tracked by another peer, injected conntrack and routine-cache entries.',
    'design_ref': '3.7 C17',
    'note': 'Object level (Firewall.Drop) for every vector of Firewall.tla; at the call sites (outside.go / inside.go on complete '
            'nodes) for the 400-odd vectors of AddrE2E.tla. Only the implication allowed => authentic is judged.',
}
