"""C16 — firewall verdicts follow the rule semantics (spec/Firewall.tla, vector mode).

Also hosts the helpers shared by C16, C17 and C22 (all three bind spec/Firewall.tla to a real Firewall)."""
import os, re, json

RULE = ("every rule sequence of Firewall.tla's lattice (all single rules over direction x protocol x port kind x groups x "
        "host x remote CIDR x CA name/sha x (environment, local CIDR); every 'sibling pair' = a rule followed by the same rule with "
        "one field changed; every 'bucket pair' = two rules in one direction/proto/port/CA bucket with overlapping remote "
        "selectors (nested remote CIDRs, host and groups of one peer, nested group lists) and different local CIDRs (nested, "
        "disjoint, default, any); seeded samples of sequences of 2 and 3 rules in both directions; the port dimension: every "
        "rule direction x protocol x port specification placed systematically in the port space (any, fragment, single middle / "
        "lowest / highest port, narrow range, range from 1, range up to 65535, exactly 1-65535, its neighbours 2-65535 and 1-65534, "
        "ranges written from 0) and pairs of such rules for two different hosts in one port table, evaluated on packets whose "
        "looked-at port lies inside, on both edges and just outside every specification, port 0, and packets without ports "
        "(fragments), for tcp / udp / icmp / another protocol) is "
        "one TLC state whose expected verdict sets come from Allowed(rules, pkt, peer, dir); each is loaded into a real Firewall "
        "with AddRule and every (packet shape, peer) pair is put through the real Drop in both directions on a fresh conntrack, "
        "followed by the reverse direction for the 'then tracked' effect; distinct = distinct rule sequences")
ASSUMPTIONS = [
    "'ICMP ignores ports': a rule written for proto icmp matches ICMP whatever its port field says, and a proto any rule with "
    "port any matches ICMP; whether an ICMP packet matches a proto ANY rule with a specific port, range or fragment is not "
    "decided by the statement or by examples/config.yml (the code says no): both verdicts are accepted there",
    "the port a rule looks at is the node-side port for inbound and the peer-side port for outbound packets (firewall/packet.go)",
    "second and further fragments carry no port: they match only port 'fragment' and 'any' rules (examples/config.yml)",
    "a port range matches the ports inside it, bounds included, and nothing else: port 0 is a port number outside every range "
    "that starts at 1 (only 'any' covers it), and 1-65535 is not 'any'",
    "AddRule(.., 0, n, ..) with n > 0 (the configuration path never produces it: '0-n' is read as any) may mean any or the ports "
    "0..n: packets only one of the two readings admits are not decided",
    "ca_name and ca_sha together are an OR, as the documented evaluation order says",
    "a missing local_cidr means the node's own VPN networks unless default_local_cidr_any (examples/config.yml); the code's "
    "shortcut 'no unsafe networks in my certificate => any' is equivalent because Drop only admits node-side addresses that "
    "are certified (C17); TLC checks this equivalence on every vector (LinkTable)",
    "packets of protocols other than tcp/udp/icmp match only proto any rules; icmp rules also cover ICMPv6",
    "verdicts are compared for packets whose addresses are authentic; the address guard itself is C17",
]


def fw_vectors(ctx, cfg, out='vectors.ndjson', thorough=None, nsample=None, append=False, timeout=1500, workers=8, init=None):
    """Run Firewall.tla in vector mode with spec/<cfg>: the inputs are the initial states, a Next step computes the expected
    result (so the workers share the work), TLC checks the link invariants, the dump is rewritten as ndjson with the
    universe vector first. Returns the number of vectors (without the universe)."""
    from tools import tlaval
    from tools.check import MachineryError
    d = ctx.spec_dir()
    text = open(os.path.join(d, cfg)).read()
    if thorough is None:
        thorough = not ctx.quick
    text = re.sub(r'Thorough = \w+', 'Thorough = %s' % ('TRUE' if thorough else 'FALSE'), text)
    if nsample is not None:
        text = re.sub(r'NSample = \d+', 'NSample = %d' % nsample, text)
    if init is not None:
        text = re.sub(r'INIT \w+', 'INIT ' + init, text)
    run_cfg = cfg.replace('.cfg', '_%s_run.cfg' % init if init else '_run.cfg')
    dump = os.path.join(d, 'vec_' + re.sub(r'\W', '_', run_cfg))
    ctx.tlc('Firewall', run_cfg, args=['-dump', dump, '-seed', str(ctx.seed)], timeout=timeout, workers=workers, cfgtext=text)
    path = dump + '.dump' if os.path.exists(dump + '.dump') else dump
    states = tlaval.parse_states_file(path)
    os.remove(path)
    uni = [s for s in states if s.get('done') and s['in'].get('kind') == 'universe']
    vecs = [s for s in states if s.get('done') and s['in'].get('kind') != 'universe']
    pending = sum(1 for s in states if not s.get('done'))
    if len(uni) != 1 or pending != len(vecs) + 1:
        raise MachineryError('vector dump of %s is inconsistent: %d universe, %d vectors, %d inputs' % (cfg, len(uni), len(vecs), pending))
    vecs.sort(key=lambda s: json.dumps(s['in'], sort_keys=True))
    with open(os.path.join(ctx.scratch, out), 'a' if append else 'w') as f:
        if not append:
            f.write(json.dumps({'in': uni[0]['in'], 'exp': uni[0]['exp']}, separators=(',', ':')) + '\n')
        for s in vecs:
            f.write(json.dumps({'in': s['in'], 'exp': s['exp']}, separators=(',', ':')) + '\n')
    for s in vecs[:: max(1, len(vecs) // 2)][:2]:
        ctx.samples.append({'vector': {'in': s['in'], 'exp': s['exp']}})
    return len(vecs)


def run(ctx):
    if ctx.quick:
        n1 = fw_vectors(ctx, 'Vec_Firewall_C16.cfg')
    else:
        n1 = fw_vectors(ctx, 'Vec_Firewall_C16.cfg', init='InitC16SingleTA')
        n1 += fw_vectors(ctx, 'Vec_Firewall_C16.cfg', init='InitC16SingleTB', append=True)
    n2 = fw_vectors(ctx, 'Vec_Firewall_C16_multi.cfg', nsample=1500 if ctx.quick else 30000, append=True)
    ctx.extra['vectors_single'] = n1
    ctx.extra['vectors_multi'] = n2    # sampled pairs/triples + sibling pairs + bucket pairs
    res = ctx.gotest('.', 'TestVerif_C16', also=('fw',), timeout=1800)
    ctx.take_mismatches(res)
    ctx.traces += n1 + n2
    ctx.extra['drop_calls'] = (res.get('extra') or {}).get('drops')
    if not ctx.violations:      # a violation is a verdict; vacuity only matters for a pass
        ctx.require_actions('universe', 'rules-1', 'rules-2', 'rules-3', 'allow', 'deny', 'tracked', 'verdict-undecided',
                            'proto-any', 'proto-tcp', 'proto-udp', 'proto-icmp',
                            'port-any', 'port-single', 'port-range', 'port-fragment',
                            # the port dimension: every placement of a specification in the port space, confronted with
                            # port 0 and with packets without ports
                            'prules-1', 'prules-2', 'pport:any', 'pport:fragment', 'pport:single', 'pport:single-lowest',
                            'pport:single-highest', 'pport:range', 'pport:range-from-1', 'pport:range-to-max', 'pport:full-range',
                            'pport:zero-range', 'pport:icmp-ignored',
                            'pcase:full-range:tcp/frag', 'pcase:full-range:tcp/port0', 'pcase:full-range:udp/frag',
                            'pcase:full-range:udp/port0', 'pcase:full-range:other/port0', 'pcase:full-range:icmp',
                            'pcase:range-from-1:tcp/port0', 'pcase:range-to-max:tcp/frag', 'pcase:range:tcp/frag',
                            'pcase:single:tcp/port0', 'pcase:fragment:tcp/frag', 'pcase:fragment:tcp/port0', 'pcase:any:tcp/port0')


META = {
    'category': 'model_checking',
    'technique': 'TLA+ function specification Firewall.tla: declarative rule semantics (Match/Allowed) + the nested rule tables of '
                 'firewall.go as a machine + link invariant TableMatch = Allowed checked by TLC on every vector; each vector is '
                 'executed on a real Firewall (AddRule, Drop, real certificates and CA pool)',
    'text': 'The documented rule semantics is transcribed as Match/Allowed; TLC enumerates the single-rule lattice exhaustively '
            'and samples rule pairs/triples (seeded), proves on each that the code-shaped nested tables decide the same, and '
            'emits the expected verdict sets; the harness loads each rule sequence into a real Firewall and compares the verdict '
            'of Drop for ~50 (packet, peer) pairs in both directions plus the conntrack effect.',
    'design_ref': '3.7 C16',
    'note': 'Finite lattice of field values. The rule tables of the model keep one entry per port that a packet of the universe can '
            'present (a 1-65535 rule has 65535 entries in the code); port texts are varied by C22 through the config path.',
}
