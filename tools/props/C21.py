"""C21 — reject replies are well formed and never answer errors or fragments (spec/Reject.tla, vector mode + judged observations)."""
import json, os, shutil

RULE = ("V: every element of Reject.tla's lattice (IPv4 with/without options, IPv6 with extension-header chains, first/later "
        "fragments; TCP with all 256 flag combinations x segment shapes, sequence/ack symbols incl. 2^32 wrap, truncated headers; "
        "UDP / ICMP types / other protocols x sizes around the quoting limits; output buffer capacities around every threshold) is "
        "one TLC state carrying the allowed reply; each is concretised, CreateRejectPacket is run and the reply decoded with gopacket "
        "and re-verified (checksums, lengths, swapped addresses/ports, quoted prefix) before it is compared; distinct = distinct "
        "vectors. T: seeded random structured packets and buffer sizes run the same way, every projected reply judged by TLC")
ASSUMPTIONS = [
    "inputs are packets the classifier accepted (complete IP header and extension-header chain, ihl >= 5)",
    "netfilter style: offender with ACK -> RST, seq = its ack number, ack 0; without ACK -> RST|ACK, seq 0, ack = seq + SYN + FIN + "
    "segment length (mod 2^32); no reset when the 20-byte TCP header is incomplete; a reset in answer to a reset is neither "
    "required nor forbidden (the statement is silent)",
    "ICMP error messages: IPv4 types 3,4,5,11,12; ICMPv6 types 1..4; for unassigned ICMPv6 types below 128 and for ICMP packets whose "
    "type byte is missing either behaviour is accepted",
    "the error quotes a prefix of the offender: at least its IP header + 8 bytes (or the whole packet if shorter), at most what keeps "
    "the reply within the documented maximum (IPv4 96 bytes, IPv6 1048 = MaxRejectPacketSize); type/code 3/13 (v4), 1/1 (v6); unused "
    "field zero",
    "a reply is required when the packet is complete, not a later fragment / ICMP error / reset, and the buffer can hold the largest "
    "allowed reply; it is optional while the buffer only holds the smallest allowed one; nothing may be sent when it holds neither",
    "well formed = decodes with gopacket, IPv4 ihl 5 / not a fragment / ttl > 0, length fields equal the real size, all checksums verify",
]


def run(ctx):
    from tools.check import MachineryError
    d = ctx.spec_dir()
    cfg = open(d + '/Vec_Reject.cfg').read()
    if not ctx.quick:
        cfg = cfg.replace('Thorough = FALSE', 'Thorough = TRUE')
    n = ctx.tlc_vectors('Reject', 'Vec_Reject_run.cfg', cfgtext=cfg, timeout=1500)
    ctx.extra['vectors'] = n
    res = ctx.gotest('iputil', 'TestVerif_C21')
    ctx.take_mismatches(res)
    ctx.traces += n
    obs = os.path.join(res['_outdir'], 'obs.ndjson')
    lines = {}
    with open(obs) as f:
        for ln in f:
            if ln.strip():
                o = json.loads(ln)
                lines[o['n']] = o
    shutil.copy(obs, os.path.join(d, 'c21_obs.ndjson'))
    m = ctx.tlc_vectors('Trace_Reject', 'Trace_Reject.cfg', out='obs_verdicts.ndjson', timeout=1500, sample=1)
    if m != len(lines):
        raise MachineryError('TLC judged %d observations, harness wrote %d' % (m, len(lines)))
    ctx.extra['observations'] = m
    per = {}
    with open(os.path.join(ctx.scratch, 'obs_verdicts.ndjson')) as f:
        for ln in f:
            st = json.loads(ln)
            v = st['exp']
            ctx.actions['T:ref:' + v['ref']] += 1
            if v['v'] == 'ok':
                continue
            o = lines[st['in']]
            what = v['v'] + (':' + o['r'].get('why', '') if v['v'] == 'malformed' else '')
            key = '%s:%s' % (v['cls'], what)
            per[key] = per.get(key, 0) + 1
            if per[key] <= 2:
                ctx.violation(key, 'observation %d: reply of the real CreateRejectPacket %s is not what Reject.tla allows (%s %s) for packet %s'
                              % (o['n'], json.dumps(o['r']), v['ref'], v['why'], json.dumps(o['p'])), o)
    ctx.traces += m
    ctx.require_actions('v4:tcp', 'v6:tcp', 'v4:icmp-error', 'v6:icmp-error', 'v4:icmp-info', 'v6:icmp-info', 'v4:other', 'v6:other',
                        'v4:tcp:later-fragment', 'v6:other:later-fragment', 'ref:rst', 'ref:icmp', 'ref:none:later-fragment',
                        'ref:none:icmp-error', 'ref:none:buffer-too-small', 'ref:none:truncated-tcp',
                        'T:got:rst', 'T:got:icmp', 'T:got:none', 'T:ref:rst', 'T:ref:icmp', 'T:ref:none')


META = {
    'category': 'model_checking',
    'technique': 'TLA+ function specification Reject.tla: reference reply decision + implementation-shaped decision, link and the '
                 'clauses of the statement checked by TLC on every vector; vectors concretised to bytes and executed on the real '
                 'CreateRejectPacket, replies decoded with gopacket and re-verified before comparison; random structured packets '
                 'observed and judged by TLC',
    'text': 'The reply decision (none / TCP reset with netfilter sequence numbers / administratively-prohibited ICMP error with quoted '
            'prefix) is a TLA+ operator over family, protocol, flags, sequence symbols, fragment position, ICMP type, extension headers and '
            'buffer capacity. TLC emits the allowed reply per vector; the harness runs the real code with an output buffer of exactly that '
            'capacity and only accepts a reply as rst/icmp after an independent decode and checksum verification, so byte-level '
            'malformation surfaces as a mismatch.',
    'design_ref': '3.8 C21',
    'note': 'rejectInside/rejectOutside only gate on configuration and pass buffers; they are covered by reading, the decision and the '
            'bytes are those of CreateRejectPacket.',
}
