"""C46 — CPU pinning choices are valid and stable (spec/CpuPick.tla, vector mode + observations)."""
import json, os

RULE = ("V(pin): every element of CpuPick.tla's lattice is one TLC state: all non-empty allowed subsets of NCpu CPUs (4 quick / "
        "6 thorough) x 4 performance masks x 4 NUMA layouts x 3 SMT layouts x CPU-0-core known/unknown x routines 1..4; TLC "
        "checks that the code's arrange (all node choices x rotations) satisfies Post and emits the acceptable member sets; "
        "the real pickCandidates/arrange run under 4-8 instance hashes each. V(list): all strings of length <= 4 (5) over "
        "{0,1,9,-,',',space,newline,+,:} classified against the kernel's cpulist syntax and parsed by the real parseCPUList. "
        "T: seeded random machines as fake sysfs trees (a quarter of them without socket information: physical_package_id -1) through the pipeline of Default, and longer strings, judged by TLC")
ASSUMPTIONS = [
    "the candidates are taken as the code reports them and must be the allowed set or the performance subset; when the "
    "performance subset is used is not part of the statement",
    "the order of the CPUs that are not on CPU 0's core is free (rotation by key, one thread per core first)",
    "CPU 0's physical core = CPU 0 plus, when the topology tells which core CPU 0 is on, the CPUs of that core",
    "'the same for the same key and topology' = repeated evaluation (topology rebuilt / sysfs read again) gives the same list",
    "'exactly the kernel's cpulist syntax': strings the kernel prints (%*pbl: ascending maximal runs N or N-M, single commas, no "
    "leading zeros) must be accepted with the denoted set; strings the kernel's own parser (bitmap_parselist) refuses must be "
    "refused; forms the kernel only accepts on input (blanks, empty regions, anything after a newline, unordered/overlapping "
    "regions, leading zeros, strides) are not compared. CPU numbers stay below the kernel's NR_CPUS limit (8192)",
    "Default itself (sched_getaffinity, the real /sys) is not driven; its pipeline is reproduced call by call on a fake sysfs",
]


def run(ctx):
    cfg = open(ctx.spec_dir() + '/Vec_CpuPick.cfg').read()
    if not ctx.quick:
        cfg = cfg.replace('NCpu = 4', 'NCpu = 6').replace('MaxStr = 4', 'MaxStr = 5')
    n = ctx.tlc_vectors('CpuPick', 'Vec_CpuPick_run.cfg', cfgtext=cfg, timeout=2400)
    ctx.extra['vectors'] = n
    res = ctx.gotest('cpupick', 'TestVerif_C46')
    ctx.take_mismatches(res)
    ctx.traces += n
    obs = {}
    with open(os.path.join(res['_outdir'], 'obs.ndjson')) as f, open(os.path.join(ctx.spec_dir(), 'obs.ndjson'), 'w') as g:
        for line in f:
            o = json.loads(line)
            obs[o['k']] = dict(o)
            o.pop('s', None), o.pop('key', None)
            g.write(json.dumps(o, separators=(',', ':')) + '\n')
    m = ctx.tlc_vectors('Trace_CpuPick', 'Trace_CpuPick.cfg', out='verdicts.ndjson', sample=1, timeout=1200)
    if m != len(obs):
        from tools.check import MachineryError
        raise MachineryError('Trace_CpuPick judged %d of %d observations' % (m, len(obs)))
    ctx.traces += m
    classes = {}
    with open(os.path.join(ctx.scratch, 'verdicts.ndjson')) as f:
        for line in f:
            v = json.loads(line)['exp']
            o = obs[v['k']]
            if v['kind'] == 'pin':
                what = 'allowed=%s perf=%s routines=%d key=%d: candidates %s, pin list %s' % (
                    o['i']['allowed'], o['i']['perf'], o['i']['routines'], o['key'], o['cands'], o['out'])
                if not v['cands']:
                    ctx.violation('random:pin:candidates', what, o)
                elif not v['post']:
                    ctx.violation('random:pin:post', 'the pin list violates the statement: ' + what, o)
                if not v['stable']:
                    ctx.violation('random:pin:unstable', what + ' then %s' % o['again'], o)
            else:
                classes[v['class']] = classes.get(v['class'], 0) + 1
                if not v['ok']:
                    sub = 'signed-number' if ('+' in o['s'] or '--' in o['s']) else 'other'
                    key = ('random:cpulist:accepts-non-kernel-syntax:' + sub) if v['class'] == 'refuse' else 'random:cpulist:kernel-output'
                    ctx.violation(key, 'parseCPUList(%r): accepted=%s value=%s; class %s' % (o['s'], o['accepted'], o['got'], v['class']), o)
    ctx.extra['random_list_classes'] = classes
    ctx.require_actions('pin', 'list:accept', 'list:refuse', 'list:free', 'T:pin', 'T:list', 'T:package-id-unknown')


META = {
    'category': 'model_checking',
    'technique': 'TLA+ specification CpuPick.tla: the statement as a relation Post(input, candidates, out) and as cpulist classes '
                 '(reference), arrange()/pickCandidates with the hash-derived choices as parameters (machine), link checked by '
                 'TLC for every topology of the lattice; vectors on the real functions; random fake-sysfs machines judged by TLC',
    'text': 'Post: only allowed CPUs, no duplicates, exactly the candidates of one NUMA node holding >= routines candidates (all '
            'candidates if none), CPUs of CPU 0\'s core form a suffix with CPU 0 last, same output on repetition. cpulist: kernel '
            'output accepted with the denoted set, anything the kernel parser refuses refused. TLC proves the machine satisfies '
            'Post for all node choices and rotations and emits the acceptable member sets per vector.',
    'design_ref': '3.10 C46',
}
