"""C24 — superpacket segmentation yields valid original segments (spec/Segment.tla)."""
import json, os
from tools.check import MachineryError

RULE = ("V: every abstract superpacket of Segment.tla's lattice (header variants: IPv4 +/- options, IPv6 +/- extension header, "
        "TCP options, UDP; payload 0..3*gso+1 for gso 1..4, 7 and real sizes; all flag sets; sequence numbers / IPv4 IDs at and "
        "across their wrap) is one TLC state, concretised into real bytes and segmented by the real code through "
        "virtio.SegmentTCP/SegmentUDP and through the tun reader's route (CheckValid, CorrectHdrLen, SegmentSuperpacket); "
        "T: seeded random superpackets at real sizes. Each yielded segment is decoded with gopacket and its checksums "
        "recomputed; the projections are judged by TLC against the statement (IsSegmentation); distinct = distinct vectors")
ASSUMPTIONS = [
    "'at most the segment size' is taken literally: any in-order split into non-empty pieces of at most gso bytes satisfies the "
    "statement; whether the packing is the maximal one of the machine is recorded but is not a violation",
    "a header-only superpacket yields exactly one header-only segment; otherwise no segment is empty",
    "TCP flags other than CWR/FIN/PSH are copied to every segment",
    "'valid IP packet' = gopacket decodes IP and TCP/UDP layers with lengths consistent with the bytes, the IPv4 header and the "
    "transport checksum (with pseudo-header) verify when recomputed from scratch, a UDP checksum field is not zero, and every "
    "header byte other than lengths / ID / sequence number / flags / checksums equals the superpacket's",
    "sequence numbers and IDs are integers in the model and reduced modulo 2^32 / 2^16 by the harness (negative = below the wrap)",
    "superpackets are built the way the kernel presents them on a vnet-hdr tun (total length of the superpacket in the IP header, "
    "pseudo-header sum in the transport checksum field); malformed virtio headers are outside this property",
]


def run(ctx):
    cfg = open(ctx.spec_dir() + '/Vec_Segment.cfg').read()
    tcfg = open(ctx.spec_dir() + '/Trace_Segment.cfg').read()
    if not ctx.quick:
        cfg = cfg.replace('Thorough = FALSE', 'Thorough = TRUE')
    n = ctx.tlc_vectors('Segment', 'Vec_Segment_run.cfg', cfgtext=cfg, timeout=2400)
    ctx.extra['vectors'] = n
    res = ctx.gotest('overlay/tio', 'TestVerif_C24')
    ctx.take_mismatches(res)
    tracefile = os.path.join(res['_outdir'], 'trace.ndjson')
    fails, ok = ctx.validate_traces('Trace_Segment', 'Trace_Segment_run.cfg', tracefile, cfgtext=tcfg, timeout=2400, max_fail=4)
    other = [fl for fl in fails if fl.get('violated') == 'Maximal']
    if other:
        fails2, ok = ctx.validate_traces('Trace_Segment', 'Trace_Segment_ref.cfg', tracefile,
                                         cfgtext=tcfg.replace(' Maximal', ''), timeout=2400, max_fail=4)
        fails = [fl for fl in fails if fl.get('violated') != 'Maximal'] + fails2
    ctx.traces = n  # vectors compared against the implementation (each through two entry points) + random ones
    ctx.traces += res.get('actions', {}).get('random', 0)
    seen = set()
    for fl in fails:
        ln = fl['line']
        sup = ln.get('sup', {})
        key = 'seg:%s%s:%s:%s' % (sup.get('proto'), sup.get('fam'), ln.get('via'), diagnose(ln))
        if key in seen:
            continue
        seen.add(key)
        ctx.violation(key, 'segments yielded for superpacket %s via %s are not a segmentation of it: %s' %
                      (json.dumps(sup), ln.get('via'), explain(ln)), fl)
    ctx.extra['non_maximal_packings'] = len(other)
    ctx.require_actions('tcp4', 'tcp6', 'udp4', 'udp6', 'udp4:segment-checksum-computes-to-zero', 'udp6:segment-checksum-computes-to-zero', 'via:virtio', 'via:tio', 'header-only', 'short-tail', 'exact-multiple',
                        'single', 'ipopt4', 'ipopt6', 'tcpopt', 'wrap', 'random')
    if res.get('actions', {}).get('refused', 0) and not ctx.violations:
        raise MachineryError('superpackets were refused but no violation was derived')
    if other and not ctx.violations:
        raise MachineryError('segments satisfy the statement but the packing is not the machine\'s of Segment.tla (%d lines): '
                             'update the specification' % len(other))


def diagnose(ln):
    """short class of what is wrong (first cause), for the mismatch key"""
    sup, out = ln.get('sup', {}), ln.get('out', [])
    if ln.get('err'):
        return 'refused'
    if not out:
        return 'nothing-yielded'
    if any(not s.get('ok') for s in out):
        why = next(s.get('why', '') for s in out if not s.get('ok'))
        for word, cls in (('checksum', 'checksum'), ('length', 'length'), ('payload', 'payload'), ('header bytes', 'header'),
                          ('decode', 'decode')):
            if word in why:
                return cls
        return 'invalid'
    if sum(s['len'] for s in out) != sup.get('paylen'):
        return 'payload-coverage'
    if any(s['len'] > sup.get('gso', 0) for s in out):
        return 'oversize'
    n = len(out)
    if sup.get('proto') == 'tcp':
        off = 0
        for j, s in enumerate(out):
            if s['seq'] != sup['seq'] + off:
                return 'seq'
            off += s['len']
        for j, s in enumerate(out):
            fl, sf = set(s['flags']), set(sup['flags'])
            if ('CWR' in fl) != (j == 0 and 'CWR' in sf):
                return 'flags-cwr'
            if ('PSH' in fl) != (j == n - 1 and 'PSH' in sf):
                return 'flags-psh'
            if ('FIN' in fl) != (j == n - 1 and 'FIN' in sf):
                return 'flags-fin'
            if fl - {'CWR', 'PSH', 'FIN'} != sf - {'CWR', 'PSH', 'FIN'}:
                return 'flags-other'
    if sup.get('fam') == 4 and any(s['id'] != sup['id'] + j for j, s in enumerate(out)):
        return 'ipid'
    return 'other'


def explain(ln):
    d = diagnose(ln)
    bad = [s for s in ln.get('out', []) if not s.get('ok')]
    extra = ln.get('err') or (bad[0].get('why') if bad else '')
    return ('%s %s' % (d, extra)).strip() + '; yielded ' + json.dumps(ln.get('out', []))[:500]


META = {
    'category': 'model_checking',
    'technique': 'TLA+ function specification Segment.tla (statement-level relation IsSegmentation, the slicing loop of '
                 'SegmentTCP/SegmentUDP as machine, link and anti-vacuity invariants checked by TLC on the whole lattice); every '
                 'vector concretised into real packet bytes and segmented by the real code through both entry points; segments '
                 'decoded with gopacket, checksums recomputed, projections validated by TLC against the relation',
    'text': 'The statement is a relation between an abstract superpacket and a sequence of abstract segments. TLC enumerates the '
            'lattice of superpackets, proves that the machine satisfies the relation and that the relation rejects the classic '
            'mistakes, and hands the lattice to the harness, which builds real IPv4/IPv6 TCP/UDP superpackets, runs the real '
            'segmenters, and projects every yielded segment with independent means (gopacket decode, RFC 1071 sums, byte '
            'comparison with the original). TLC then evaluates the relation on every recorded projection, including seeded '
            'random superpackets up to 64 KiB.',
    'design_ref': '3.9 C24',
    'note': 'Byte-exactness of checksums is enforced through projection validity. FinishChecksum (non-GSO packets) and malformed '
            'virtio headers (CheckValid/CorrectHdrLen rejections) are not part of this property.',
}
