"""C36 — unusable underlay addresses are never used (spec/Lighthouse.tla, mode C36R)."""
import json
from tools.check import MachineryError

RULE = ("R: histories of 4 events from Lighthouse.tla on a real LightHouse/RemoteList/RemoteAllowList/Punchy/HostInfo: every source "
        "(answers of 2 lighthouses, host update, lighthouse punch request, learned from handshake, learned from roam, resolver "
        "results, calculated remotes; static_host_map at start-up) x every class (allowed, inside my overlay networks v4/v6, denied "
        "globally, denied for the peer's range, marked bad, > 10 entries) x 3 peers, then a second source, block/delete, third source; "
        "after every event CopyAddrs/ForEach/keep-alive punches (handshake, probe), current remote (data) and scheduled punch "
        "datagrams are observed; T: seeded random 12-event sequences judged by the statement only; distinct = distinct histories")
ASSUMPTIONS = [
    "'each information source contributes at most ten addresses per peer' is checked as: at most 10 reported entries (and relays) per "
    "(owner, family) in a peer's cache; resolver results of static_host_map are configuration and are not capped by the code "
    "(12 literals give 12 candidates) - recorded as an observation, not judged",
    "'marked bad' is a mark on a peer's candidate list: handshake, probe and keep-alive destinations must not contain such an address; "
    "targets named by a lighthouse's punch request and the address a live tunnel answers from are judged by overlay-network and "
    "allow-list classes only",
    "addresses learned from a handshake or a roam are offered in the classes {allowed, denied globally, denied for the peer's range, "
    "marked bad}: a datagram whose source lies inside the node's own overlay networks is dropped at the top of readOutsidePackets, "
    "which an object-level harness does not reach (left to the whole-node destination monitor); the handshake path is represented by "
    "the two calls it makes (RemoteAllowList.AllowAll over the certificate's addresses, HostInfo.SetRemote)",
    "handshake and probe destinations are observed at RemoteList.CopyAddrs/ForEach (what handleOutbound and TryPromoteBest iterate)",
]


def run(ctx):
    cfg = open(ctx.spec_dir() + '/Vec_Lighthouse_C36R.cfg').read()
    if not ctx.quick:
        cfg = cfg.replace('Thorough = FALSE', 'Thorough = TRUE')
    n = ctx.tlc_vectors('Lighthouse', 'Vec_Lighthouse_C36R_run.cfg', out='c36r.ndjson', cfgtext=cfg, timeout=1500, workers=2)
    ctx.extra['histories'] = n
    res = ctx.gotest('.', 'TestVerif_C36', also=('lh',))
    if res['_rc'] != 0:
        raise MachineryError('harness failed:\n' + res['_stdout'][-3000:])
    ctx.take_mismatches(res)
    ctx.traces += n
    drift = (res.get('extra') or {}).get('drift') or []
    if drift and not ctx.violations:
        raise MachineryError('the code differs from Lighthouse.tla\'s machine inside what the statement permits (specification '
                             'out of date?): %s' % json.dumps(drift[0])[:2500])
    need = ['ev:reply', 'ev:punch', 'ev:learn', 'ev:roam', 'ev:dns', 'ev:calc', 'ev:update', 'ev:block', 'ev:delete',
            'dest:handshake', 'dest:data', 'T:reply', 'T:punch']
    need += ['dest:punch', 'dest:probe']
    if not ctx.violations:      # a violation ends its history early; it is a verdict by itself
        ctx.require_actions(*need)


META = {
    'category': 'model_checking',
    'technique': 'TLA+ specification Lighthouse.tla: address classes, sources -> filters -> per-owner cache (<= 10) -> candidate set -> '
                 'destinations, with the invariants NoBadDest / Cap10 / StaticKept checked by TLC on every step of every emitted '
                 'history; histories replayed on the real objects; random histories judged by the statement',
    'text': 'TLC enumerates event histories in which every source offers every class of address, checks that in the specified design '
            'no destination is of a bad class, no owner holds more than ten reported entries and static entries survive, and emits '
            'the expected destinations; the harness performs the events on a real LightHouse (allow lists, calculated remotes and '
            'static hosts from configuration), observes every destination and compares with the statement and with the design.',
    'design_ref': '3.6 C36',
    'note': 'The whole-node destination monitor of DESIGN 3.6 is not part of this check.',
}
