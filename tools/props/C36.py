"""C36 — unusable underlay addresses are never used (spec/Lighthouse.tla, mode C36R)."""
import json
from tools.check import MachineryError

RULE = ("R: histories of 4 events from Lighthouse.tla on a real LightHouse/RemoteList/RemoteAllowList/Punchy/HostInfo: every source "
        "(answers of 2 lighthouses, host update, lighthouse punch request, learned from handshake, learned from roam, resolver "
        "results, calculated remotes; static_host_map at start-up) x every class (allowed, inside my overlay networks v4/v6, denied "
        "globally, denied for the peer's range, marked bad, > 10 entries; and, for the lighthouse-message sources, every IPv4 class "
        "once more spelled as an IPv4-mapped entry of V6AddrPorts: allowed, inside my overlay networks, denied globally, denied for "
        "the peer's range, denied for the sender's range only, marked bad) x 3 peers, then a second source, block/delete, third source; "
        "a second node configuration spells static_host_map literals as IPv4-mapped addresses (start-up state, one event, one message "
        "source); an address is judged by what it is (after unmapping) and observed destinations are compared after unmapping; "
        "after every event CopyAddrs/ForEach/keep-alive punches (handshake, probe), current remote (data) and scheduled punch "
        "datagrams are observed; T: seeded random 12-event sequences judged by the statement only; distinct = distinct histories")
ASSUMPTIONS = [
    "'each information source contributes at most ten addresses per peer' is checked as: at most 10 reported entries (and relays) per "
    "(owner, family) in a peer's cache; resolver results of static_host_map are configuration and are not capped by the code "
    "(12 literals give 12 candidates) - recorded as an observation, not judged",
    "'marked bad' is a mark on a peer's candidate list: handshake, probe and keep-alive destinations must not contain such an address; "
    "targets named by a lighthouse's punch request and the address a live tunnel answers from are judged by overlay-network and "
    "allow-list classes only",
    "addresses learned from a handshake or a roam are offered in the classes {allowed, denied globally, denied for the peer's range, "
    "marked bad}: a datagram whose source lies inside the node's own overlay networks is dropped at the top of readOutsidePackets, "
    "which an object-level harness does not reach (left to the whole-node destination monitor); the handshake path is represented by "
    "the two calls it makes (RemoteAllowList.AllowAll over the certificate's addresses, HostInfo.SetRemote)",
    "handshake and probe destinations are observed at RemoteList.CopyAddrs/ForEach (what handleOutbound and TryPromoteBest iterate)",
    "an IPv4-mapped IPv6 spelling (::ffff:a.b.c.d) of an underlay address IS the IPv4 address a.b.c.d (that is what the socket sends "
    "to): overlay-network membership, allow lists and bad marks apply to a.b.c.d. The spelling dimension applies to lighthouse "
    "messages (reply, update, punch request) and to static_host_map literals; addresses learned from a handshake or a roam arrive "
    "unmapped from the udp readers (udp_*.go) and resolver results are unmapped by the resolver loop (remote_list.go), "
    "calculated remotes are computed from IPv4 masks: those sources are offered in the plain spelling only",
]


def run(ctx):
    cfg = open(ctx.spec_dir() + '/Vec_Lighthouse_C36R.cfg').read()
    cfg = cfg.replace('Salt = 0', 'Salt = %d' % (ctx.seed % 1000))
    if 'Salt = %d' % (ctx.seed % 1000) not in cfg:
        raise MachineryError('Vec_Lighthouse_C36R.cfg has no Salt constant')
    if not ctx.quick:
        cfg = cfg.replace('Thorough = FALSE', 'Thorough = TRUE')
    n = ctx.tlc_vectors('Lighthouse', 'Vec_Lighthouse_C36R_run.cfg', out='c36r.ndjson', cfgtext=cfg, timeout=1500, workers=2)
    ctx.extra['histories'] = n
    res = ctx.gotest('.', 'TestVerif_C36', also=('lh',))
    if res['_rc'] != 0:
        raise MachineryError('harness failed:\n' + res['_stdout'][-3000:])
    ctx.take_mismatches(res)
    ctx.traces += n
    # system level: destinations of handshakes, punches and data of complete nodes (spec/Discovery.tla, rule R5)
    if not ctx.violations:
        from tools.props import _disc
        dres, tf = _disc.record(ctx)
        ctx.traces += _disc.validate(ctx, tf, only=lambda v: v.startswith('R5'))
        if not ctx.violations:
            _disc.guards(ctx)
    drift = (res.get('extra') or {}).get('drift') or []
    if drift and not ctx.violations:
        raise MachineryError('the code differs from Lighthouse.tla\'s machine inside what the statement permits (specification '
                             'out of date?): %s' % json.dumps(drift[0])[:2500])
    need = ['ev:reply', 'ev:punch', 'ev:learn', 'ev:roam', 'ev:dns', 'ev:calc', 'ev:update', 'ev:block', 'ev:delete',
            'dest:handshake', 'dest:data', 'T:reply', 'T:punch']
    need += ['dest:punch', 'dest:probe']
    # the encoding dimension: every IPv4 class offered as an IPv4-mapped entry of V6AddrPorts by every message source
    need += ['mapped:%s:%s' % (s, c) for s in ('reply', 'punch') for c in ('ok', 'inOverlay', 'deniedGlobal', 'deniedPeer')]
    need += ['static:v4mapped-literals', 'ev:static']
    need += ['mapped:update:%s' % c for c in ('ok', 'inOverlay', 'deniedGlobal', 'deniedPeer')]
    if not ctx.violations:      # a violation ends its history early; it is a verdict by itself
        ctx.require_actions(*need)


META = {
    'category': 'model_checking',
    'technique': 'TLA+ specification Lighthouse.tla: address classes (properties of the address, not of its spelling: an IPv4 address may '
                 'travel as V4AddrPort or as IPv4-mapped V6AddrPort / static literal), sources -> filters -> per-owner cache (<= 10) -> candidate set -> '
                 'destinations, with the invariants NoBadDest / Cap10 / StaticKept checked by TLC on every step of every emitted '
                 'history; histories replayed on the real objects; random histories judged by the statement',
    'text': 'TLC enumerates event histories in which every source offers every class of address, checks that in the specified design '
            'no destination is of a bad class, no owner holds more than ten reported entries and static entries survive, and emits '
            'the expected destinations; the harness performs the events on a real LightHouse (allow lists, calculated remotes and '
            'static hosts from configuration), observes every destination and compares with the statement and with the design.',
    'design_ref': '3.6 C36',
    'note': 'The whole-node destination monitor of DESIGN 3.6 is not part of this check.',
}
