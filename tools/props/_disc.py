"""Shared pipeline of the system-level lighthouse DISCOVERY check (spec/Discovery.tla): additional binding for C35 / C36.

    mc(ctx)                     closed small world: the permission rules imply the invariants I1..I3
    record(ctx)                 seeded adversarial schedules on complete nodes -> (result, trace file)
    validate(ctx, tracefile)    TLC validates every recorded step against the permission rules; returns traces accepted
"""
import os, re, json
from tools.check import MachineryError

ASSUMPTIONS = [
    "Discovery.tla is a permission specification: it does not predict what a node does with a stimulus, it decides whether the "
    "change of its address table, the datagrams it emitted and the handshakes it started in that step are allowed (R1..R6)",
    "whole nodes (nebula.Main, e2e_testing tester socket/tun) in a testing/synctest bubble: virtual time, one stimulus per step, "
    "state compared at quiescence; goroutine interleavings inside a step are not explored",
    "world: ordinary A, B, C without static entries for each other, lighthouse L (every fourth trace also L2), hostile authenticated "
    "peer H; v2 certificates, one overlay address per node, no relays; H forges lighthouse payloads (v2 and v1 encoding) on its "
    "own valid tunnels; a configured lighthouse that lies (addresses the receiver must filter) is played by the harness",
    "'authenticated as x' for a handshake datagram means: built by node x with x's certificate (the harness never alters "
    "handshake bytes). The reading is the wording of C35 ('only from a tunnel authenticated as A'): a stage-1 datagram that is "
    "refused (replay, already seen) makes no tunnel and must not move the learned slot, and a wrong responder's source must not "
    "become the learned address of the intended peer; the run includes a lighthouse whose own handshake is answered by a wrong "
    "host. (The pinned tree failed this - HostInfo.SetRemote wrote the shared RemoteList before the handshake was accepted - and "
    "was repaired: known_findings.jsonl, fixed: C35 be50dba; VERIF_DISC_LENIENT=1 selects the weaker reading that tolerated it.) "
    "The model is checked with Strict = TRUE",
    "recv_error datagrams go back to the source of what could not be matched and are not subject to the allow list "
    "(the statement names handshakes, punches and data)",
    "R1 is read as: a HostQuery goes only to a configured lighthouse and only for an address the node has wanted (pending or "
    "tunnel) at some time in the run (a query may wait in the packet store of the handshake with the lighthouse)",
    "MC: closed world with all tunnels up, single-address messages, a lighthouse answers from its current cache; the stale-answer "
    "case is covered by I2 holding in every reachable state",
]

GUARDS = ['mt:HostQuery', 'mt:HostQueryReply', 'mt:HostUpdateNotification', 'mt:HostUpdateNotificationAck', 'mt:HostPunchNotification',
          'hostile:HostQuery:node', 'hostile:HostQueryReply:node', 'hostile:HostUpdateNotification:node', 'hostile:HostPunchNotification:node',
          'hostile:HostUpdateNotificationAck:node',
          'hostile:HostQuery:lh', 'hostile:HostQueryReply:lh', 'hostile:HostUpdateNotification:lh', 'hostile:HostPunchNotification:lh',
          'hostile:HostUpdateNotificationAck:lh',
          'discovered', 'punch-sent', 'roaming-seen', 'lying-lighthouse-sent']


def mc(ctx):
    if os.environ.get('VERIF_SKIP_MC'):   # development only: mutant runs exercise the binding, not the model
        ctx.states += 1
        return None
    # quick: one address per (subject, owner, kind) slot: 2 304 states / 25 729 transitions, 15-40 s on 8 workers at load < 20
    # (2-4 min when the machine is at load 50-90); thorough: two addresses per slot: 4 096 states / 46 593 transitions (20 s - 4 min).
    # TrackB = TRUE (B's table explored too) is available for manual runs: > 90 000 states, not finished after 25 min.
    cfg = open(os.path.join(ctx.spec_dir(), 'MC_Discovery.cfg')).read()
    if not ctx.quick:
        cfg = cfg.replace('SlotMax = 1', 'SlotMax = 2')
    return ctx.tlc('MC_Discovery', 'MC_Discovery_run.cfg', cfgtext=cfg, timeout=2400, workers=8)


def record(ctx, traces=None):
    env = {}
    if traces:
        env['VERIF_DISC_TRACES'] = str(traces)
    res = ctx.gotest('e2e', 'TestVerif_Disc', tags='verif e2e_testing', also=('net', 'disc'), env=env, timeout=600 if ctx.quick else 1500)
    if res.get('_rc'):
        raise MachineryError('discovery harness failed')
    return res, os.path.join(res['_outdir'], 'trace_disc.ndjson')


def _diagnose(ctx, fl, n):
    """Run TLC once more on the rejected trace alone and read the first violated rule it prints."""
    lines = fl.get('full') or fl.get('trace')
    if not lines:
        return None
    lines = lines[:fl['lineno_in_trace'] + 1]
    d = ctx.spec_dir()
    with open(os.path.join(d, 'trace.ndjson'), 'w') as f:
        for x in lines:
            f.write(json.dumps(x) + '\n')
    r = ctx.tlc('TraceMC_Discovery', 'Trace_Discovery.cfg', workers=1, expect_ok=False, count=False, timeout=600)
    m = re.findall(r'"VERIF_VERDICT",\s*"([^"]*)"', r['out'])
    return m[-1] if m else None


def validate(ctx, tracefile, only=None):
    """only: optional predicate on the rule label (C35 / C36 keep their own part). Violations are added to ctx."""
    # the thorough tier records some 10^5 lines: validated in chunks of 120 traces (one TLC run each)
    chunks, cur, ntr = [], [], 0
    with open(tracefile) as f:
        for ln in f:
            if not ln.strip():
                continue
            if '"ev":"reset"' in ln:
                if ntr and ntr % 120 == 0:
                    chunks.append(cur)
                    cur = []
                ntr += 1
            cur.append(ln)
    if cur:
        chunks.append(cur)
    fails, ok = [], 0
    for k, ch in enumerate(chunks):
        path = os.path.join(ctx.scratch, 'trace_disc_chunk%d.ndjson' % k)
        with open(path, 'w') as f:
            f.writelines(ch)
        fl, n = ctx.validate_traces('TraceMC_Discovery', 'Trace_Discovery.cfg', path, max_fail=3, timeout=1800)
        fails += fl
        ok += n
        if len(fails) >= 3:
            break
    for i, fl in enumerate(fails):
        ln = fl['line']
        verdict = _diagnose(ctx, fl, i) or 'unexplained'
        if only is not None and not only(verdict):
            ctx.extra.setdefault('other_rule_failures', []).append(verdict)
            continue
        prev = None
        for x in reversed((fl.get('trace') or fl.get('full') or [])[:fl['lineno_in_trace']]):
            if x.get('n') == ln.get('n') and 'known' in x:
                prev = x
                break
        key = 'disc:' + verdict
        ctx.violation(key, 'node %s, stimulus %s: the step is not permitted by Discovery.tla (rule %s); address table before: %s, after: %s; '
                           'tunnels %s pending %s; emitted: %s' %
                      (ln.get('n'), json.dumps(ln.get('stim')), verdict, json.dumps(prev['known'] if prev else None), json.dumps(ln.get('known')),
                       ln.get('tuns'), ln.get('pend'), json.dumps(ln.get('out'))), fl)
    return ok


def guards(ctx):
    ctx.require_actions(*GUARDS)
