"""C34 (the part a TLA+ model can decide) - deadlock freedom of the locking protocol, predictively, and lock discipline of
mutex-guarded Go maps. spec/LockOrder.tla (interleaving model of recorded lock episodes), spec/LockDiscipline.tla +
spec/Trace_LockDiscipline.tla (trace specification). tools/lockinst instruments the current tree without editing /repo.

Pipeline
  1. lockinst: instrumented copies of package nebula + config of the CURRENT tree (scratch directory, never cached) + overlay
  2. workload: the repository's own multi-node tests (e2e, tag e2e_testing) on the instrumented packages -> locks.ndjson
  3. (B) TLC validates the recorded lock / guarded-map trace against LockDiscipline.tla
  4. (A) episodes -> combos -> MC_LockOrder_run.tla; TLC explores all interleavings: NoWaitCycle, hazards, deadlock
  5. every TLC counterexample is a PREDICTION: gate plan -> workload re-run -> violation only if real goroutines are caught
     simultaneously in the predicted cycle (zzvlk.gate)
"""
import os, re, json, subprocess, collections, time, itertools

from tools.check import MachineryError, ROOT, REPO

RULE = ('(A) every pair (thorough: also every triple incl. "two nested readers + a pending writer") of lock episodes that different '
        'goroutines of the workloads executed on overlapping real lock instances is one TLC configuration of LockOrder.tla (Go '
        'Mutex/RWMutex semantics incl. a pending Lock excluding new readers); TLC explores all interleavings and checks '
        'NoWaitCycle, NoSelfRelock, NoRecursiveRLock, NoBadUnlock and deadlock freedom; a counterexample is a prediction and is '
        'reported only if, in a gated re-run, real goroutines brought into the predicted state and released stay blocked on '
        'each other (or if a workload deadlocks by itself). (B) every recorded lock / unlock / guarded-map access of the '
        'workloads is one line of a trace validated by TLC against LockDiscipline.tla (guard of the same object held in the '
        'required mode; construction phase excepted), rejected accesses are reported when a second recording rejects them '
        'again; distinct = distinct episode shapes + distinct guarded-map access sites exercised')
ASSUMPTIONS = [
    'NOT decided: data races on non-map memory (plain fields, slices, pointers read/written without synchronisation, e.g. the '
    'unsynchronised read of config.C.Settings), correct use of atomics, channel protocols, sync.WaitGroup / sync.Once / context '
    'waits - a happens-before detector is needed for those; a hang that is not a cycle of sync.Mutex/RWMutex waits is only noted',
    'deadlocks are decided only for the lock episodes the workloads exercise (the repository\'s e2e tests + a five-node '
    'concurrent stress workload, on the instrumented packages nebula and config), predictively over all interleavings of 2 '
    '(thorough: 3) of them on the lock instances they were recorded on; loops that repeat the same balanced block of lock '
    'operations are collapsed to one iteration',
    'thorough tier, diagnostic: episode shapes that nest two lock CLASSES in opposite orders are also paired with instances '
    'renamed (class level); such predictions can be impossible, they are listed as unconfirmed unless reproduced',
    'a prediction becomes a violation only when real goroutines stay blocked in that cycle (seen twice, >= 2 s apart, on books '
    'that count a lock as held only between the return of Lock and the call of Unlock); predictions not reproduced within the '
    'bounded number of gated re-runs are listed in the evidence (extra.unconfirmed) and printed, exit status 0',
    'map discipline covers map-typed fields of structs that declare a sync mutex, in packages nebula and config; maps reached '
    'through a copied map value (extra.map_escapes), maps in structs without a mutex, and maps of other packages are not seen; '
    'the creator of an object is taken to be the first goroutine that touches it; objects are identified by address and '
    'pinned, so addresses are never reused',
    'ordering known to the model: program order and goroutine creation (go statements, WaitGroup.Go, time.AfterFunc); '
    'orderings by channels / WaitGroup.Wait are unknown to it, which can only add predictions, never verdicts',
]
CONFIRM_BY_RERUN = False   # reproduction is part of the pipeline (gate re-run for A, second recording for B)

LOCKINST = os.path.join(ROOT, 'tools', 'lockinst')
STRESS = 'VerifC34Stress'   # harness/e2e/zz_verif_c34_test.go: five nodes under concurrent load, churn and reloads


# ------------------------------------------------------------------------------------------------- instrumentation
def instrument(ctx):
    """Instrument the CURRENT tree of REPO into the scratch directory (never cached between runs)."""
    out = os.path.join(ctx.scratch, 'inst')
    os.makedirs(out, exist_ok=True)
    env = dict(os.environ)
    env.update({'GOFLAGS': '-mod=mod', 'GOPROXY': 'off'})
    env.pop('GOSUMDB', None)
    t = time.time()
    p = subprocess.run(['go', 'run', os.path.join(LOCKINST, 'main.go'), '-repo', REPO, '-out', out,
                        '-runtime', os.path.join(LOCKINST, 'runtime', 'zz_vlk_runtime.go'), '-tags', 'e2e_testing',
                        '-pkgs', '.,./config'],
                       cwd=REPO, env=env, stdout=subprocess.PIPE, stderr=subprocess.STDOUT, text=True)
    if p.returncode != 0:
        raise MachineryError('lockinst failed on the tree:\n' + p.stdout[-3000:])
    with open(os.path.join(out, 'overlay.json')) as f:
        ov = json.load(f)['Replace']
    with open(os.path.join(out, 'meta.json')) as f:
        meta = json.load(f)
    meta['_wall_s'] = round(time.time() - t, 1)
    return ov, meta


def gen_table(ctx):
    """zz_verif_c34_gen_test.go: the table of the e2e tests the current tree declares."""
    names = []
    d = os.path.join(REPO, 'e2e')
    for fn in sorted(os.listdir(d)):
        if not fn.endswith('_test.go'):
            continue
        with open(os.path.join(d, fn)) as f:
            src = f.read()
        names += re.findall(r'^func (Test\w+)\(\w+ \*testing\.T\)', src, re.M)
    names = [n for n in names if n != 'TestMain' and not n.startswith('TestVerif_')]
    path = os.path.join(ctx.scratch, 'zz_verif_c34_gen_test.go')
    with open(path, 'w') as f:
        f.write('//go:build e2e_testing\n\npackage e2e\n\nimport "testing"\n\nvar c34Tests = []struct {\n\tname string\n\tfn   func(*testing.T)\n}{\n')
        for n in names:
            f.write('\t{"%s", %s},\n' % (n, n))
        f.write('}\n')
    return path, names


def run_workload(ctx, ov, table, name, tests=None, plan=None, timeout=480, deadline=200):
    """Run (a subset of) the e2e tests on the instrumented tree. Returns (result or None, error text, output directory)."""
    env = {'GOMAXPROCS': '8', 'VLK_TESTS': tests or '', 'VLK_STRESS_MS': '2500' if ctx.quick else '8000',
           'VLK_DEADLINE_S': str(deadline)}
    if plan:
        env['VLK_PLAN'] = plan
    outdir = os.path.join(ctx.scratch, 'out_' + re.sub(r'\W', '_', name))
    res, err = None, None
    try:
        res = ctx.gotest('e2e', 'TestVerif_C34', tags='e2e_testing', env=env, name=name, timeout=timeout, count=False,
                         extra_overlay=ov, extra_files={'e2e/zz_verif_c34_gen_test.go': table})
    except MachineryError as e:
        err = str(e)
        if 'does not build' in err or 'setup failed' in err:
            raise
    return res, err, outdir


# ------------------------------------------------------------------------------------------------- the recorded log
def load_log(path):
    ev = []
    with open(path) as f:
        for ln in f:
            if ln.strip():
                ev.append(json.loads(ln))
    return ev


class UF:
    def __init__(self):
        self.p = {}

    def find(self, x):
        p = self.p
        r = x
        while p.setdefault(r, r) != r:
            r = p[r]
        while p[x] != r:
            p[x], x = r, p[x]
        return r

    def union(self, a, b):
        a, b = self.find(a), self.find(b)
        if a != b:
            self.p[a] = b


LOCKEV = ('want', 'got', 'try', 'rel')


def components(ev):
    """Parts of the log that share no object and no goroutine (one per test, or less)."""
    uf = UF()
    for e in ev:
        if e['e'] in LOCKEV or e['e'] == 'acc':
            uf.union(('g', e['g']), ('o', e['o']))
    comp = {}
    for e in ev:
        if e['e'] in LOCKEV or e['e'] == 'acc':
            comp[e['g']] = uf.find(('g', e['g']))
    names = collections.defaultdict(list)
    for e in ev:
        if e['e'] == 'mark' and e.get('c') == 'test' and e['g'] in comp:
            names[comp[e['g']]].append(e['s'])
    return comp, names


def discipline_trace(ev, comp):
    """ndjson lines for Trace_LockDiscipline: per component, dense ids, reset between components."""
    by = collections.OrderedDict()
    for e in ev:
        if e['e'] in ('got', 'try', 'rel', 'acc'):
            by.setdefault(comp[e['g']], []).append(e)
    lines = []
    sites = set()
    for cid, evs in by.items():
        lines.append('{"e":"reset"}')
        gi, oi, ki = {}, {}, {}
        for e in evs:
            g = gi.setdefault(e['g'], len(gi) + 1)
            o = oi.setdefault(e['o'], len(oi) + 1)
            if e['e'] == 'acc':
                lines.append(json.dumps({'e': 'acc', 'g': g, 'o': o, 'f': e['c'], 'm': e['m'], 's': e['s']}, separators=(',', ':')))
                sites.add((e['c'], e['m'], e['s']))
            else:
                k = ki.setdefault(e['a'], len(ki) + 1)
                lines.append(json.dumps({'e': 'rel' if e['e'] == 'rel' else 'got', 'g': g, 'k': k, 'o': o, 'c': e['c'],
                                         'm': e['m'], 's': e['s']}, separators=(',', ':')))
    return lines, sites, len(by)


def validate_discipline(ctx, lines, meta, tag):
    """TLC decides the trace. Returns the list of rejected accesses (dicts kind,f,m,s,why)."""
    mech = {k: v['mutexes'] for k, v in meta['maps'].items()}
    files = {'trace.ndjson': '\n'.join(lines) + '\n', 'mech.json': json.dumps(mech)}
    r = ctx.tlc('Trace_LockDiscipline', 'Trace_LockDiscipline.cfg', workers=1, expect_ok=False, files=files, timeout=1500,
                java_opts='-XX:TieredStopAtLevel=1')
    if r['ok']:
        return []
    if r['violated'] != 'Disciplined':
        ctx.save('tlc_disc_%s.out' % tag, r['out'])
        raise MachineryError('trace validation (LockDiscipline) could not run:\n' + r['out'][-3000:])
    # collect mode: the whole trace, every rejected access
    r2 = ctx.tlc('Trace_LockDiscipline', 'Trace_LockDiscipline_collect.cfg', workers=1, expect_ok=False, count=False, timeout=1500,
                 java_opts='-XX:TieredStopAtLevel=1')
    m = re.search(r'^"VLKVIOL (.*)"$', r2['out'], re.M)
    if not r2['ok'] or not m:
        ctx.save('tlc_disc_collect_%s.out' % tag, r2['out'])
        raise MachineryError('trace validation (collect mode) failed:\n' + r2['out'][-3000:])
    return json.loads(json.loads('"' + m.group(1) + '"'))


# ------------------------------------------------------------------------------------------------- episodes
class Occ:
    __slots__ = ('shape', 'addrs', 'wit', 'comp')


def episodes(ev, meta, comp):
    """Cut every goroutine's lock events into episodes. Returns shapes, occurrence classes, goroutine ancestry, stats."""
    kind_of = {c: ('rw' if v['kind'] == 'rwmutex' else 'm') for c, v in meta['classes'].items()}
    cur = {}      # g -> dict(steps, held, forks, n0)
    shapes = {}   # key -> id
    shape_list = []
    occs = {}     # (shape id, addrs) -> Occ
    stats = collections.Counter()
    forks_by_g = collections.defaultdict(list)   # g -> [(n, site, token)]
    tok_fork = {}
    parent = {}   # g -> (parent g, n of the fork event in the parent's timeline or None)
    for e in ev:
        t = e['e']
        g = e['g']
        if t == 'fork':
            forks_by_g[g].append((e['n'], e['s'], e.get('x', 0)))
            if e.get('x'):
                tok_fork[e['x']] = (g, e['n'])
            c = cur.get(g)
            if c is not None:
                c['forks'].append((len(c['steps']), e['n']))
            continue
        if t == 'child':
            if e.get('x') in tok_fork:
                parent[g] = tok_fork[e['x']]
            continue
        if t == 'new':
            p = e.get('x', 0)
            if p and g not in parent:
                fn = None
                s = e.get('s', '')
                for (n, site, tok) in forks_by_g.get(p, ()):
                    if not tok and n < e['n'] and (s.endswith('/' + site)):
                        fn = n      # earliest fork of that statement by that parent: claims the least order
                        break
                parent[g] = (p, fn)
            continue
        if t not in LOCKEV:
            if t == 'hazard':
                stats['hazard_%d' % e.get('x', 0)] += 1
            continue
        c = cur.get(g)
        if t in ('want', 'try') and c is None:
            c = cur[g] = {'steps': [], 'held': [], 'forks': [], 'n0': e['n']}
        if c is None:
            if t == 'rel':
                stats['rel_without_episode'] += 1
            continue
        c['steps'].append((t, e['a'], e['c'], e['m'], e['s']))
        if t in ('got', 'try'):
            c['held'].append((e['a'], e['m']))
        elif t == 'rel':
            for i in range(len(c['held']) - 1, -1, -1):
                if c['held'][i] == (e['a'], e['m']):
                    del c['held'][i]
                    break
            if not c['held']:
                # episode complete
                del cur[g]
                stats['episodes'] += 1
                if len(c['steps']) > 12:
                    keep = compress(c['steps'])
                    if len(keep) < len(c['steps']):
                        stats['episodes_compressed'] += 1
                        ks = set(keep)
                        c['forks'] = [(sum(1 for k in keep if k < i), n) for (i, n) in c['forks']]
                        c['steps'] = [c['steps'][k] for k in keep]
                loc = {}
                prog, kinds, clss = [], [], []
                depth = md = 0
                for (op, a, cl, m, s) in c['steps']:
                    if a not in loc:
                        loc[a] = len(loc) + 1
                        kinds.append(kind_of.get(cl, 'm'))
                        clss.append(cl)
                    prog.append((op, loc[a], m, s))
                    if op in ('got', 'try'):
                        depth += 1
                        md = max(md, depth)
                    elif op == 'rel':
                        depth -= 1
                key = (tuple(prog), tuple(kinds))
                sid = shapes.get(key)
                if sid is None:
                    sid = shapes[key] = len(shape_list)
                    shape_list.append({'prog': tuple(prog), 'kinds': tuple(kinds), 'cls': tuple(clss), 'depth': md, 'n': 0, 'gs': set(),
                                       'tests': set()})
                shape_list[sid]['n'] += 1
                if len(shape_list[sid]['gs']) < 8:
                    shape_list[sid]['gs'].add(g)
                addrs = tuple(loc)
                ok = (sid, addrs)
                o = occs.get(ok)
                if o is None:
                    o = occs[ok] = Occ()
                    o.shape, o.addrs, o.wit, o.comp = sid, addrs, [], comp.get(g)
                if len(o.wit) < 6 and all(w[0] != g for w in o.wit):
                    o.wit.append((g, c['n0'], e['n'], tuple(c['forks'])))
    stats['incomplete_episodes'] = len(cur)
    return shape_list, list(occs.values()), parent, stats


def compress(steps, mi=3):
    """Collapse immediately repeated, balanced blocks of steps (loops that take and release the same locks at the same
    sites again and again while the same outer locks stay held): the second copy adds no state of the locking protocol
    that the first does not have. A block that nets an acquisition (recursive RLock!) is never collapsed.
    Returns the kept indexes."""
    idx = list(range(len(steps)))
    changed = True
    while changed:
        changed = False
        n = len(idx)
        for b in range(3, min(90, n // 2) + 1):
            i = 0
            out = []
            while i < len(idx):
                blk = [steps[k] for k in idx[i:i + b]]
                j = i + b
                if len(blk) == b and _balanced(blk, mi):
                    while [steps[k] for k in idx[j:j + b]] == blk:
                        j += b
                        changed = True
                    if j > i + b:
                        out.extend(idx[i:i + b])
                        i = j
                        continue
                out.append(idx[i])
                i += 1
            idx = out
    return idx


def _balanced(blk, mi):
    held = []
    for t in blk:
        op, a, m = t[0], t[1], t[mi]
        if op in ('got', 'try'):
            held.append((a, m))
        elif op == 'rel':
            if (a, m) not in held:
                return False
            held.remove((a, m))
    if held:
        return False
    # a block must not end between a want and its got
    return blk[0][0] in ('want', 'try') and blk[-1][0] == 'rel'


def fork_point(parent, anc, g):
    """n of the fork event in anc's timeline after which g (a descendant of anc) was created; None if unknown / unrelated."""
    seen = 0
    while g in parent and seen < 64:
        p, fn = parent[g]
        if p == anc:
            return fn
        g = p
        seen += 1
    return None


def project(shape, addrs, keep):
    """Steps of the episode on the lock instances in `keep` (addresses)."""
    out = []
    for (op, l, m, s) in shape['prog']:
        a = addrs[l - 1]
        if a in keep:
            out.append((op, a, m, s, shape['kinds'][l - 1], shape['cls'][l - 1]))
    return out


def depth_distinct(steps):
    """max number of DISTINCT instances held at once."""
    held, md = [], 0
    for (op, a, m, s, k, c) in steps:
        if op in ('got', 'try'):
            held.append(a)
            md = max(md, len(set(held)))
        elif op == 'rel' and a in held:
            held.remove(a)
    return md


def recursive_reads(steps):
    """instances on which the episode takes a read lock while already holding one."""
    held, out = [], set()
    for (op, a, m, s, k, c) in steps:
        if op in ('got', 'try'):
            if m == 'r' and (a, 'r') in held:
                out.add(a)
            held.append((a, m))
        elif op == 'rel' and (a, m) in held:
            held.remove((a, m))
    return out


def write_locks(steps):
    return {a for (op, a, m, s, k, c) in steps if op in ('got', 'try') and m == 'w'}


def build_combos(shape_list, occs, parent, names, arity3, cap3=1200):
    """Combos = sets of 2 (3) occurrence classes executed by different goroutines on overlapping instances, projected onto
    the shared instances and de-duplicated."""
    by_addr = collections.defaultdict(set)
    for i, o in enumerate(occs):
        for a in o.addrs:
            by_addr[a].add(i)
    progs, prog_id = [], {}
    combos, seen = [], {}
    stats = collections.Counter()

    def witnesses(group):
        """choose one witness per occurrence class: distinct goroutines, not ordered by fork edges; gates for partial order."""
        best = None
        for ws in itertools.product(*[occs[i].wit for i in group]):
            gs = [w[0] for w in ws]
            if len(set(gs)) != len(gs):
                continue
            gates = [(0, 0)] * len(ws)
            ok = True
            for x in range(len(ws)):
                for y in range(len(ws)):
                    if x == y:
                        continue
                    f = fork_point(parent, gs[x], gs[y])   # y descends from x: x's events before f precede all of y
                    if f is None:
                        continue
                    (_, a1, b1, forks) = ws[x]
                    if f > b1:
                        ok = False          # the whole episode of x precedes goroutine y
                    elif f > a1:
                        k = 0
                        for (idx, n) in forks:
                            if n == f:
                                k = idx
                        if k > 0 and gates[y] == (0, 0):
                            gates[y] = (x + 1, k)
            if not ok:
                continue
            score = sum(1 for g in gates if g != (0, 0))
            if best is None or score < best[0]:
                best = (score, ws, gates)
                if score == 0:
                    break
        return best

    def add(group, keep):
        best = witnesses(group)
        if best is None:
            stats['groups_ordered_or_same_goroutine'] += 1
            return
        _, ws, gates = best
        uni = {}
        eps, lks, kinds, clss = [], [], [], []
        projs = []
        for i in group:
            o = occs[i]
            steps = project(shape_list[o.shape], o.addrs, keep)
            if len(steps) > 12:
                steps = [steps[k] for k in compress(steps, 2)]    # loops that became identical by the projection
            projs.append(steps)
        # step indexes of a gate refer to the unprojected episode: translate (number of kept steps among the first k)
        g2 = []
        for gi, (j, k) in enumerate(gates):
            if j == 0:
                g2.append((0, 0))
                continue
            o = occs[group[j - 1]]
            full = shape_list[o.shape]['prog']
            kept = sum(1 for (op, l, m, s) in full[:k] if o.addrs[l - 1] in keep)
            g2.append((j, kept) if kept > 0 else (0, 0))
        for steps in projs:
            loc, lk, prog = {}, [], []
            for (op, a, m, s, k, c) in steps:
                if a not in uni:
                    uni[a] = len(uni) + 1
                    kinds.append(k)
                    clss.append(c)
                if a not in loc:
                    loc[a] = len(loc) + 1
                    lk.append(uni[a])
                prog.append((op, loc[a], m, s))
            prog = tuple(prog)
            if prog not in prog_id:
                prog_id[prog] = len(progs) + 1
                progs.append(prog)
            eps.append(prog_id[prog])
            lks.append(tuple(lk))
        key = (tuple(eps), tuple(lks), tuple(kinds), tuple(g2))
        if key in seen:
            seen[key]['n'] += 1
            return
        cb = {'eps': tuple(eps), 'lk': tuple(lks), 'kind': tuple(kinds), 'cls': tuple(clss), 'gate': tuple(g2), 'n': 1,
              'comp': occs[group[0]].comp, 'tests': sorted(set(names.get(occs[group[0]].comp, []))),
              'gor': [w[0] for w in ws]}
        seen[key] = cb
        combos.append(cb)

    nested = [i for i, o in enumerate(occs) if shape_list[o.shape]['depth'] >= 2]
    stats['nested_occurrence_classes'] = len(nested)
    neigh = {}
    qual = []      # pairs of nested classes that hold two shared instances at once (candidates for a third party)
    for i in nested:
        o = occs[i]
        cand = set()
        for a in o.addrs:
            cand |= by_addr[a]
        neigh[i] = cand
        s1 = set(o.addrs)
        full1 = project(shape_list[o.shape], o.addrs, s1)
        rr1 = recursive_reads(full1)
        for j in sorted(cand):
            p = occs[j]
            if j == i and len(o.wit) < 2:
                continue
            shared = s1 & set(p.addrs)
            p1 = project(shape_list[o.shape], o.addrs, shared)
            p2 = project(shape_list[p.shape], p.addrs, shared)
            cyc = depth_distinct(p1) >= 2 and depth_distinct(p2) >= 2
            haz = bool(rr1 & write_locks(p2))
            if not (cyc or haz):
                continue
            if cyc and j in neigh and j < i and not haz:
                continue     # unordered pair already taken from the other side
            add((i, j), shared)
            if cyc:
                qual.append((i, j, shared, p1, p2))
    stats['pairs'] = len(combos)
    if arity3:
        def full():
            return len(combos) - stats['pairs'] >= cap3
        # (T2) a pair that nests two shared instances + a third goroutine that WRITE-locks a shared RWMutex one of the two
        # read-locks: the pending writer turns "both only read" into a cycle (Go excludes new readers while a Lock waits)
        for (i, j, shared, p1, p2) in qual:
            rlocks = {a for (op, a, m, s, k, c) in p1 + p2 if op in ('got', 'try') and m == 'r' and k == 'rw'}
            for a in sorted(rlocks):
                taken = set()
                for k3 in sorted(by_addr[a]):
                    if k3 in (i, j):
                        continue
                    p3 = project(shape_list[occs[k3].shape], occs[k3].addrs, shared)
                    if a not in write_locks(p3):
                        continue
                    sig = tuple((op, m, s) for (op, a_, m, s, k, c) in p3)
                    if sig in taken:
                        continue
                    taken.add(sig)
                    add((i, j, k3), shared)
                    if len(taken) >= 4 or full():
                        break
                if full():
                    break
            if full():
                break
        stats['triples_pending_writer'] = len(combos) - stats['pairs']
        # (T1) three nested episodes, pairwise overlapping
        for i in nested:
            if full():
                break
            ci = sorted(j for j in neigh[i] if j in neigh and j > i)
            for x in range(len(ci)):
                if full():
                    break
                for y in range(x + 1, len(ci)):
                    j, k = ci[x], ci[y]
                    if k not in neigh[j]:
                        continue
                    si, sj, sk = set(occs[i].addrs), set(occs[j].addrs), set(occs[k].addrs)
                    keep = (si & sj) | (sj & sk) | (si & sk)
                    if len(keep) < 2:
                        continue
                    ps = [project(shape_list[occs[z].shape], occs[z].addrs, keep) for z in (i, j, k)]
                    if any(depth_distinct(p) < 2 for p in ps):
                        continue
                    add((i, j, k), keep)
                    if full():
                        break
        if full():
            stats['triples_capped'] = 1
        stats['triples'] = len(combos) - stats['pairs']
    return progs, combos, stats


def class_level_combos(shape_list, cap=250):
    """DIAGNOSTIC generalisation: two episode shapes that nest two lock CLASSES in opposite orders are paired as if they had
    met on the same two instances (instance renaming), optionally with a third goroutine that write-locks one of the two
    (pending writer). This can predict deadlocks that are impossible (the instances may never coincide, the goroutines may
    be ordered), so its predictions are only ever listed as unconfirmed unless the gate demonstrates them."""
    edges = collections.defaultdict(list)     # (c1, c2) -> [(shape id, local held, local acquired)]
    writers = collections.defaultdict(list)   # class -> [(site of want/got, site of rel)]
    for sid, sh in enumerate(shape_list):
        held = []
        seen = set()
        for idx, (op, l, m, site) in enumerate(sh['prog']):
            if op in ('got', 'try'):
                for h in held:
                    c1, c2 = sh['cls'][h - 1], sh['cls'][l - 1]
                    if h != l and c1 != c2 and (h, l) not in seen:
                        seen.add((h, l))
                        edges[(c1, c2)].append((sid, h, l))
                held.append(l)
                if m == 'w' and sh['kinds'][l - 1] == 'rw' and len(writers[sh['cls'][l - 1]]) < 3:
                    rels = [s2 for (o2, l2, m2, s2) in sh['prog'][idx:] if o2 == 'rel' and l2 == l and m2 == 'w']
                    w = (site, rels[0] if rels else site)
                    if w not in writers[sh['cls'][l - 1]]:
                        writers[sh['cls'][l - 1]].append(w)
            elif op == 'rel' and l in held:
                held.remove(l)
    progs, prog_id, combos, seen = [], {}, [], set()

    def pid(prog):
        prog = tuple(prog)
        if prog not in prog_id:
            prog_id[prog] = len(progs) + 1
            progs.append(prog)
        return prog_id[prog]

    def proj(sh, keep):     # keep: local -> universe
        loc, lk, prog = {}, [], []
        for (op, l, m, s) in sh['prog']:
            if l in keep:
                if l not in loc:
                    loc[l] = len(loc) + 1
                    lk.append(keep[l])
                prog.append((op, loc[l], m, s))
        return pid(prog), tuple(lk)

    for (c1, c2), es1 in sorted(edges.items()):
        if (c2, c1) not in edges or c1 > c2:
            continue
        for (s1, h1, a1) in es1:
            for (s2, h2, a2) in edges[(c2, c1)]:
                if len(combos) >= cap:
                    break
                sh1, sh2 = shape_list[s1], shape_list[s2]
                if len(sh1['gs'] | sh2['gs']) < 2:
                    continue
                # universe: 1 = the c1 instance, 2 = the c2 instance
                p1, lk1 = proj(sh1, {h1: 1, a1: 2})
                p2, lk2 = proj(sh2, {h2: 2, a2: 1})
                kinds = (sh1['kinds'][h1 - 1], sh1['kinds'][a1 - 1])
                base = {'kind': kinds, 'cls': (c1, c2), 'tests': [], 'level': 'class', 'n': 1}
                key = (p1, lk1, p2, lk2)
                if key not in seen:
                    seen.add(key)
                    combos.append(dict(base, eps=(p1, p2), lk=(lk1, lk2), gate=((0, 0), (0, 0))))
                # pending writers on a lock one of the two only reads
                for L, c in ((1, c1), (2, c2)):
                    if kinds[L - 1] != 'rw':
                        continue
                    for (ws, wr) in writers.get(c, [])[:2]:
                        p3 = pid((('want', 1, 'w', ws), ('got', 1, 'w', ws), ('rel', 1, 'w', wr)))
                        key3 = key + (p3, L)
                        if key3 in seen:
                            continue
                        seen.add(key3)
                        combos.append(dict(base, eps=(p1, p2, p3), lk=(lk1, lk2, (L,)), gate=((0, 0), (0, 0), (0, 0))))
    return progs, combos


# ------------------------------------------------------------------------------------------------- LockOrder model
def tla_str(s):
    return '"' + s.replace('\\', '\\\\').replace('"', '\\"') + '"'


def tla_seq(items):
    return '<<' + ', '.join(items) + '>>'


def mc_module(progs, combos, name='run'):
    out = ['---------------------------- MODULE LockOrderData ----------------------------',
           '(* generated by tools/props/C34.py from the lock episodes recorded on the current tree; replaces the demo data of *)',
           '(* spec/LockOrderData.tla in the scratch copy of spec/ only; never stored *)',
           'EXTENDS Integers, Sequences', '']
    out.append('Progs == <<')
    ps = []
    for p in progs:
        ps.append('  ' + tla_seq('[op |-> %s, l |-> %d, m |-> %s, s |-> %s]' % (tla_str(op), l, tla_str(m), tla_str(s)) for (op, l, m, s) in p))
    out.append(',\n'.join(ps))
    out.append('>>')
    out.append('ComboSets == [%s |-> <<' % name)
    cs = []
    for c in combos:
        gate = list(c['gate']) + [(0, 0)] * (3 - len(c['gate']))
        cs.append('  [eps |-> %s, lk |-> %s, kind |-> %s, gate |-> %s]' % (
            tla_seq(str(e) for e in c['eps']),
            tla_seq(tla_seq(str(x) for x in lk) for lk in c['lk']),
            tla_seq(tla_str(k) for k in c['kind']),
            tla_seq(tla_seq([str(a), str(b)]) for (a, b) in gate)))
    out.append(',\n'.join(cs))
    out.append('>>]')
    out.append('=============================================================================')
    return '\n'.join(out) + '\n'


CFG_CHECK = '''CONSTANTS Which = "run"
          MaxLocks = %d
INIT Init
NEXT Next
INVARIANTS TypeOK NoWaitCycle NoSelfRelock NoRecursiveRLock NoBadUnlock
CHECK_DEADLOCK TRUE
'''
CFG_ENUM = '''CONSTANTS Which = "run"
          MaxLocks = %d
INIT Init
NEXT Next
INVARIANTS EnumReport
CHECK_DEADLOCK FALSE
'''


def selftest_model(ctx):
    """Vacuity guard: the model must accept the good demo combos and report each bad one (AB-BA, recursive RLock against a
    writer, three-way cycle)."""
    r = ctx.tlc('LockOrder', 'MC_LockOrder_good.cfg', workers=2, java_opts='-XX:TieredStopAtLevel=1')
    r = ctx.tlc('LockOrder', 'MC_LockOrder_bad.cfg', workers=2, java_opts='-XX:TieredStopAtLevel=1', count=False)
    got = set(re.findall(r'<<"VLK", "(\w+)", (\d+),', r['out']))
    need = {('cycle', '1'), ('cycle', '2'), ('rrlock', '2'), ('cycle', '3')}
    if not need <= got:
        raise MachineryError('LockOrder.tla no longer reports the demo deadlocks: %s' % sorted(got))
    r = ctx.tlc('LockOrder', 'MC_LockOrder_badcheck.cfg', workers=2, java_opts='-XX:TieredStopAtLevel=1', count=False, expect_ok=False)
    if r['ok'] or not (r['violated'] or 'Deadlock reached' in r['out']):
        raise MachineryError('LockOrder.tla checking mode accepts the demo deadlocks')


def check_combos(ctx, progs, combos):
    """Checking mode; on failure enumeration mode. Returns the list of predictions [(kind, combo index, pcs)]."""
    if not combos:
        return []
    maxl = max(3, max(len(c['kind']) for c in combos))
    mod = mc_module(progs, combos)
    files = {'LockOrderData.tla': mod}     # scratch copy of spec/ only (the self-test has already run on the demo data)
    r = ctx.tlc('LockOrder', 'MC_LockOrder_run.cfg', cfgtext=CFG_CHECK % maxl, files=files, workers=8, expect_ok=False, timeout=1500)
    if r['ok']:
        return []
    if not (r['violated'] or 'Deadlock reached' in r['out']):
        ctx.save('tlc_lockorder.out', r['out'])
        raise MachineryError('TLC failed on the generated LockOrder model:\n' + r['out'][-3000:])
    first = r['violated'] or 'deadlock'
    r2 = ctx.tlc('LockOrder', 'MC_LockOrder_enum.cfg', cfgtext=CFG_ENUM % maxl, workers=8, timeout=1500)
    preds = []
    for m in re.finditer(r'<<"VLK", "(\w+)", (\d+), <<([\d, ]+)>>>>', r2['out']):
        preds.append((m.group(1), int(m.group(2)) - 1, tuple(int(x) for x in m.group(3).split(','))))
    if not preds:
        ctx.save('tlc_lockorder_enum.out', r2['out'])
        raise MachineryError('checking mode reported %s but enumeration mode found nothing' % first)
    return preds


def state_of(progs, cb, pcs):
    """For a printed state: per goroutine the held locks [(universe lock, mode, site)] and the pending step."""
    out = []
    for i, e in enumerate(cb['eps']):
        prog = progs[e - 1]
        held = []
        for (op, l, m, s) in prog[:pcs[i] - 1]:
            L = cb['lk'][i][l - 1]
            if op in ('got', 'try'):
                held.append((L, m, s))
            elif op == 'rel':
                for x in range(len(held) - 1, -1, -1):
                    if held[x][0] == L and held[x][1] == m:
                        del held[x]
                        break
        nxt = None
        if pcs[i] <= len(prog):
            (op, l, m, s) = prog[pcs[i] - 1]
            nxt = (op, cb['lk'][i][l - 1], m, s)
        out.append({'held': held, 'next': nxt})
    return out


def wait_cycle(st):
    """goroutines (indexes) in a wait-for cycle of the state (same relation as LockOrder.tla, pending writers included)."""
    n = len(st)

    def blocks(q, p):     # does q stand in p's way
        nx = st[p]['next']
        if nx is None or nx[0] != 'got':
            return False
        _, L, m, _ = nx
        for (HL, hm, _) in st[q]['held']:
            if HL == L and (m == 'w' or hm == 'w'):
                return True
        if q != p and m == 'r':
            nq = st[q]['next']
            if nq is not None and nq[0] == 'got' and nq[1] == L and nq[2] == 'w':
                return True
        return False

    for start in range(n):
        stack = [(start, [start])]
        while stack:
            cur, path = stack.pop()
            for q in range(n):
                if blocks(q, cur):
                    if q == start:
                        return path
                    if q not in path:
                        stack.append((q, path + [q]))
    return []


def predictions(progs, combos, preds):
    """Group TLC's reported states into goroutine-independent predictions with a gate plan each."""
    out = collections.OrderedDict()
    hazards = collections.Counter()
    for (kind, ci, pcs) in preds:
        cb = combos[ci]
        st = state_of(progs, cb, pcs)
        if kind != 'cycle':
            for i, s in enumerate(st):
                nx = s['next']
                if nx and kind == 'rrlock' and nx[2] == 'r' and any(h[0] == nx[1] and h[1] == 'r' for h in s['held']):
                    hazards['recursive-RLock %s %s while holding it from %s' % (cb['cls'][nx[1] - 1], nx[3],
                            [h[2] for h in s['held'] if h[0] == nx[1]][0])] += 1
                if nx and kind in ('self', 'badunlock'):
                    hazards['%s %s %s' % (kind, cb['cls'][nx[1] - 1], nx[3])] += 1
            continue
        cyc = wait_cycle(st)
        if not cyc:
            continue
        roles = []
        for i in cyc:
            s = st[i]
            _, L, m, site = s['next']
            roles.append({'want_site': site, 'want_cls': cb['cls'][L - 1], 'want_mode': m,
                          'hold': [{'site': hs, 'cls': cb['cls'][HL - 1]} for (HL, hm, hs) in s['held']]})
        sig = sorted(('pending-writer:%s' % r['want_cls']) if not r['hold'] and r['want_mode'] == 'w' else
                     '%s->%s@%s/%s' % ('+'.join(sorted('%s@%s' % (h['cls'], h['site']) for h in r['hold'])) or '-', r['want_cls'],
                                       r['want_site'], r['want_mode']) for r in roles)
        key = 'deadlock:' + '|'.join(sig)
        p = out.get(key)
        if p is None:
            p = out[key] = {'key': key, 'roles': [], 'tests': set(), 'combos': 0, 'arity': len(cyc)}
        for r in sorted(roles, key=lambda r: (r['want_site'], r['want_cls'])):
            if r not in p['roles'] and len(p['roles']) < 12:
                p['roles'].append(r)       # alternatives (e.g. several writers of the same lock) are all armed in the gate
        p['tests'] |= set(cb['tests'])
        p['combos'] += 1
    return list(out.values()), hazards


def demo_key(shown):
    """Goroutine-independent key of a demonstrated deadlock: per member of the cycle the locks it holds that another member
    is about to acquire, and what it is about to acquire itself."""
    cyc = shown['cycle']
    wanted = {c['want']['addr'] for c in cyc}
    parts = []
    for c in cyc:
        hold = sorted({'%s@%s' % (h['cls'], h['site']) for h in (c.get('held') or []) if h['addr'] in wanted})
        if not hold and c['want']['mode'] == 'w':
            # a goroutine that holds nothing of the cycle and is merely about to Lock: which of the many writers of that
            # lock it is does not identify the defect
            parts.append('pending-writer:%s' % c['want']['cls'])
        else:
            parts.append('%s->%s@%s/%s' % ('+'.join(hold) or '-', c['want']['cls'], c['want']['site'], c['want']['mode']))
    return 'deadlock:' + '|'.join(sorted(parts))


def demo_text(shown):
    return ' || '.join('goroutine %d holds %s and is about to acquire %s at %s' % (
        c['g'], ', '.join('%s(%s)@%s' % (h['cls'], h['mode'], h['site']) for h in (c.get('held') or [])) or 'nothing',
        c['want']['cls'] + '(' + c['want']['mode'] + ')', c['want']['site']) for c in shown['cycle'])


def observed_deadlock(ctx, outdir, what):
    """A lock cycle that HAPPENED in a workload run (zzvlk.checkStuck / Lock of an instance already held)."""
    dj = os.path.join(outdir, 'deadlock.json')
    if not os.path.exists(dj):
        return False
    with open(dj) as f:
        shown = json.load(f)
    ctx.violation(demo_key(shown), '%s: %s' % (what, demo_text(shown)), {'demonstration': shown})
    return True


# ------------------------------------------------------------------------------------------------- pipeline
def record(ctx, ov, table, name, tests, meta):
    res, err, outdir = run_workload(ctx, ov, table, name, tests=tests)
    log = os.path.join(outdir, 'locks.ndjson')
    if observed_deadlock(ctx, outdir, 'the workload deadlocked: real goroutines blocked on each other (no gate involved)'):
        return None, [], [], err
    if res is None and not os.path.exists(os.path.join(outdir, 'result.json')):
        raise MachineryError('workload run %s produced nothing: %s' % (name, (err or '')[-2500:]))
    if res is None:
        with open(os.path.join(outdir, 'result.json')) as f:
            res = json.load(f)
    failed = (res.get('extra') or {}).get('failed') or []
    hung = (res.get('extra') or {}).get('hung') or []
    if hung:
        print('NOTE: workload tests still running at the deadline (no lock cycle among blocked goroutines): %s' % hung)
        failed = failed + ['%s (hung)' % h for h in hung]
        if len(hung) > max(2, len((res.get('extra') or {}).get('ran') or []) // 4):
            raise MachineryError('most of the workload did not terminate: %s' % hung)
    if not os.path.exists(log):
        raise MachineryError('workload run %s wrote no lock log: %s' % (name, (err or '')[-2500:]))
    return res, failed, load_log(log), err


def select_tests(ctx, names):
    # development aid: VERIF_C34_WORKLOADS=e2e (scripted tests only) | stress (the concurrent workload only); default both
    wl = os.environ.get('VERIF_C34_WORKLOADS', 'all')
    if wl == 'stress':
        return [STRESS], '^%s$' % STRESS
    stress = [STRESS] if wl != 'e2e' else []
    if not ctx.quick:
        return names + stress, ('^(' + '|'.join(names) + ')$') if wl == 'e2e' else None
    # quick: every third test, rotated by the seed, plus the relay / reload / close-tunnel tests that give the nested episodes
    core = {'TestRelays', 'TestStage1Race', 'TestLighthouseUpdateOnReload', 'TestCloseTunnelAuthenticated', 'TestRehandshaking',
            'TestReestablishRelays', 'TestGoodHandshake', 'TestRehandshakingRelays'}
    sel = [n for i, n in enumerate(names) if n in core or (i + ctx.seed) % 3 == 0] + stress
    return sel, '^(' + '|'.join(sel) + ')$'


def run(ctx):
    ov, meta = instrument(ctx)
    ctx.extra['instrumentation'] = {k: meta[k] for k in ('packages', 'files', 'lock_calls', 'map_accesses', 'go_stmts', 'skipped')}
    ctx.extra['lock_classes'] = {c: {'kind': v['kind'], 'operations': len(v['sites'])} for c, v in sorted(meta['classes'].items())}
    ctx.extra['guarded_maps'] = {k: {'type': v['type'], 'mutexes': v['mutexes'], 'decl': v['decl'], 'reads': v['reads'],
                                     'writes': v['writes']} for k, v in sorted(meta['maps'].items())}
    ctx.extra['map_escapes'] = {k: v['escapes'] for k, v in meta['maps'].items() if v.get('escapes')}
    ctx.extra['map_uninstrumented'] = {k: v['skipped'] for k, v in meta['maps'].items() if v.get('skipped')}
    if not meta['classes'] or not meta['maps']:
        raise MachineryError('vacuous: no lock classes / guarded maps found in the tree')
    table, names = gen_table(ctx)
    sel, rx = select_tests(ctx, names)
    selftest_model(ctx)

    res, failed, ev, err = record(ctx, ov, table, 'record', rx, meta)
    if ctx.violations:
        ctx.extra['workload'] = {'deadlocked': True}
        return
    ctx.evaluations += len(ev)
    ctx.actions['test'] += len((res.get('extra') or {}).get('ran') or [])
    ctx.extra['workload'] = {'tests': (res.get('extra') or {}).get('ran'), 'failed': failed, 'events': len(ev),
                             'goroutines': len({e['g'] for e in ev})}
    if failed:
        print('NOTE: repository e2e tests failing on the instrumented tree (not a verdict of C34): %s' % failed)
    comp, names_of = components(ev)

    # ---- (B) lock discipline of guarded maps
    lines, sites, nparts = discipline_trace(ev, comp)
    ctx.extra['discipline'] = {'trace_lines': len(lines), 'parts': nparts, 'access_sites_exercised': len(sites),
                               'fields_exercised': sorted({s[0] for s in sites})}
    if len({x[0] for x in sites}) * 2 < len(meta['maps']):
        raise MachineryError('vacuous: the workloads touched only %d of %d guarded map fields' % (len({x[0] for x in sites}), len(meta['maps'])))
    rejected = validate_discipline(ctx, lines, meta, 'a')
    ctx.traces += nparts
    if rejected:
        rec = [r for r in rejected if r['kind'] == 'recorder']
        if rec:
            raise MachineryError('the recorded log is not a legal mutex history (recorder broken): %s' % rec[:3])
        # reproduce: record again, keep what TLC rejects again
        res2, failed2, ev2, _ = record(ctx, ov, table, 'record2', rx, meta)
        comp2, _ = components(ev2)
        lines2, _, _ = discipline_trace(ev2, comp2)
        rej2 = {(r['kind'], r['f'], r['m'], r['s']) for r in validate_discipline(ctx, lines2, meta, 'b')} if ev2 else set()
        for r in rejected:
            k = (r['kind'], r['f'], r['m'], r['s'])
            if k in rej2:
                if r['kind'] == 'unguarded':
                    ctx.violation('map:%s:%s:%s' % (r['f'], 'write' if r['m'] == 'w' else 'read', r['s']),
                                  'guarded map %s %s at %s without its guard (%s)' % (r['f'], 'written' if r['m'] == 'w' else 'read', r['s'], r['why']), r)
                else:
                    ctx.violation('unlock:%s:%s' % (r['f'], r['s']), 'unlock of %s at %s by a goroutine that does not hold it' % (r['f'], r['s']), r)
            else:
                print('NOTE: rejected access did not reproduce in a second recording: %s' % (k,))

    # ---- (A) deadlock freedom, predictively
    shape_list, occs, parent, est = episodes(ev, meta, comp)
    progs, combos, cst = build_combos(shape_list, occs, parent, names_of, arity3=not ctx.quick)
    ctx.distinct += len(shape_list) + len(sites)
    ctx.extra['episodes'] = {'episodes': est['episodes'], 'distinct_shapes': len(shape_list),
                             'nested_shapes': sum(1 for s in shape_list if s['depth'] >= 2),
                             'max_depth': max([s['depth'] for s in shape_list] or [0]),
                             'occurrence_classes': len(occs), 'incomplete': est['incomplete_episodes'],
                             'recursive_rlock_events': est.get('hazard_2', 0), 'goroutines_with_known_parent': len(parent),
                             'classes_locked': sorted({c for s in shape_list for c in s['cls']})}
    # evidence samples: the deepest recorded lock episodes (what TLC interleaves)
    for sh in sorted(shape_list, key=lambda x: -x['depth'])[:2]:
        try:
            ctx.samples.append({'lock_episode': json.loads(json.dumps(sh, default=str))})
        except Exception:
            ctx.samples.append({'lock_episode': str(sh)[:800]})
    if lines:
        ctx.samples.append({'discipline_trace_line': lines[len(lines) // 2]})
    ctx.extra['combos'] = dict(cst)
    ctx.extra['combos']['programs'] = len(progs)
    nest = collections.Counter()
    for s in shape_list:
        held = []
        for (op, l, m, site) in s['prog']:
            if op in ('got', 'try'):
                for h in held:
                    if h != l:
                        nest['%s -> %s' % (s['cls'][h - 1], s['cls'][l - 1])] += 1
                held.append(l)
            elif op == 'rel' and l in held:
                held.remove(l)
    ctx.extra['nesting_observed'] = dict(nest)
    if est['episodes'] == 0 or not any(s['depth'] >= 2 for s in shape_list):
        raise MachineryError('vacuous: the workloads exercised no nested lock episode')
    preds = check_combos(ctx, progs, combos)
    plist, hazards = predictions(progs, combos, preds)
    ctx.extra['hazards_predicted'] = dict(hazards)
    unconfirmed = []

    def attempt(p, pi, schedule, label):
        """gated re-runs for one prediction; True if real goroutines were caught in the cycle"""
        tests = sorted(p['tests'])
        nostress = os.environ.get('VERIF_C34_WORKLOADS') == 'e2e'
        for a, (with_tests, tmo, parks) in enumerate(schedule):
            sel = sorted(set(([] if nostress else [STRESS]) + (tests[:6] if with_tests or nostress else [])))
            if not sel:
                continue
            plan = {'key': p['key'], 'roles': p['roles'], 'timeout_ms': tmo, 'max_parks': parks}
            pf = os.path.join(ctx.scratch, 'plan_%s_%d_%d.json' % (label, pi, a))
            with open(pf, 'w') as f:
                json.dump(plan, f)
            res3, err3, outdir = run_workload(ctx, ov, table, 'gate_%s_%d_%d' % (label, pi, a), tests='^(' + '|'.join(sel) + ')$',
                                              plan=pf, timeout=300, deadline=90)
            dj = os.path.join(outdir, 'deadlock.json')
            if os.path.exists(dj):
                with open(dj) as f:
                    shown = json.load(f)
                ctx.violation(demo_key(shown), 'deadlock predicted by TLC and reproduced: real goroutines, brought into the '
                              'predicted state by the gate and then released, stayed blocked on each other: ' + demo_text(shown),
                              {'prediction': {'key': p['key'], 'roles': p['roles'], 'tests': tests, 'level': label},
                               'demonstration': shown})
                return True
            if os.path.exists(os.path.join(outdir, 'gate_only.json')):
                p['gate_note'] = 'the gate caught real goroutines in the predicted state, but released into their blocking calls they did not stay blocked'
        return False

    # the concurrent stress workload first (that is where partners arrive while a goroutine is parked); the last attempt
    # adds the scripted tests in which the episodes were recorded
    sched = [(False, 250, 40), (True, 400, 10)] if ctx.quick else [(False, 250, 40), (False, 600, 20), (True, 400, 10)]
    max_plans = 3 if ctx.quick else 8
    for pi, p in enumerate(plist):
        if pi >= max_plans:
            unconfirmed.append({'key': p['key'], 'why': 'not attempted (more than %d predictions)' % max_plans})
            continue
        print('PREDICTION (TLC, %d-cycle, recorded instances): %s' % (p['arity'], p['key']))
        if not attempt(p, pi, sched, 'inst'):
            print('  not reproduced on real goroutines in %d gated re-runs: counted as unconfirmed' % len(sched))
            unconfirmed.append({'key': p['key'], 'level': 'instance', 'roles': p['roles'], 'tests': sorted(p['tests']),
                                'why': p.get('gate_note', 'the gate never caught the cycle')})

    # ---- diagnostic: class-level generalisation (thorough tier only); can only add "unconfirmed" entries or demonstrations
    if not ctx.quick and not ctx.violations:
        cprogs, ccombos = class_level_combos(shape_list)
        ctx.extra['class_level'] = {'combos': len(ccombos)}
        if ccombos:
            r = ctx.tlc('LockOrder', 'MC_LockOrder_cls.cfg', cfgtext=CFG_ENUM % 3, files={'LockOrderData.tla': mc_module(cprogs, ccombos)},
                        workers=8, timeout=900)
            cpreds = [(m.group(1), int(m.group(2)) - 1, tuple(int(x) for x in m.group(3).split(',')))
                      for m in re.finditer(r'<<"VLK", "(\w+)", (\d+), <<([\d, ]+)>>>>', r['out'])]
            cl, chaz = predictions(cprogs, ccombos, cpreds)
            known = {p['key'] for p in plist}
            cl = [p for p in cl if p['key'] not in known]
            ctx.extra['class_level']['predictions'] = len(cl)
            for pi, p in enumerate(cl):
                print('PREDICTION (TLC, %d-cycle, class level - instances renamed, diagnostic): %s' % (p['arity'], p['key']))
                if pi < 2 and attempt(p, pi, [(False, 300, 30)], 'cls'):
                    continue
                unconfirmed.append({'key': p['key'], 'level': 'class', 'roles': p['roles'],
                                    'why': p.get('gate_note', 'the gate never caught the cycle') if pi < 2 else 'not attempted'})
    ctx.extra['predictions'] = len(plist)
    ctx.extra['unconfirmed'] = unconfirmed
    if not ctx.violations:
        ctx.require_actions('test')


META = {
    'category': 'model_checking',
    'technique': 'TLA+ interleaving model LockOrder.tla over lock episodes recorded from the instrumented real code (TLC: all '
                 'interleavings of 2-3 episodes, NoWaitCycle + deadlock + Go RWMutex hazards), predictions confirmed by a '
                 'runtime gate on real goroutines; TLA+ trace specification LockDiscipline.tla validated by TLC on the '
                 'recorded lock / guarded-map trace',
    'text': 'tools/lockinst rewrites (in a scratch copy, through go build -overlay) every sync.Mutex/RWMutex operation, go '
            'statement and access to a map field of a mutex-bearing struct of the current tree; the repository\'s own e2e '
            'tests run on it. TLC (A) explores every interleaving of the recorded lock episodes that different goroutines '
            'ran on shared instances and (B) validates the recorded trace against the guard table of LockDiscipline.tla. '
            'A predicted deadlock is reported only after a gated re-run parked real goroutines in the predicted cycle.',
    'design_ref': '4 C34',
    'note': 'PARTIAL claim: decides deadlock freedom of the sync.Mutex/RWMutex protocol (among the lock episodes the workloads exercise, '
            'predictively over their interleavings) and the lock discipline of mutex-guarded Go maps. Does NOT decide data races on '
            'non-map memory, atomics or channel protocols (a happens-before detector would be a different technique). Found and '
            'fixed: three-party HostMap/RemoteList deadlock (known_findings.jsonl, fixed: C34 88528be).',
}
