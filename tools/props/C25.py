"""C25 — the accelerated Internet checksum equals the RFC 1071 checksum (spec/Checksum.tla, vector mode)."""
import json, os, random, re
from tools.check import MachineryError

RULE = ("V: one TLC state per symbolic buffer of Checksum.tla = (pattern: all-0x00, all-0xff, alternating 0xff00 / 0x00ff, "
        "ascending / descending ramp, congruential pseudo-random bytes with 2 [thorough 3] seeds from VERIF_SEED [thorough also "
        "0xa55a, ramp stride 7, all-0x80]) x (length: quick 0..72, +-2 around 96, 128, 192, 256, 512, 1024, 1500, 2048, 4096, and "
        "16386, 40001, 65535, 65536; thorough 0..160, +-3 around every multiple of 32 up to 1024, of 64 up to 2048, of 128 up to "
        "4096, of 256 up to 4096, of 512 up to 8192, of 1024 up to 8192, of 4096 up to 16384, and around 1500, 9000, 65535, 131072, "
        "131076) x (no spike | a spike at the first / last [thorough also last-but-one, middle] position or at the start of the "
        "last 32-byte block: one byte +1 on all-0x00 [thorough also 0xff], one 0x00 byte on all-0xff, the integer 1 as big-endian "
        "word / little-endian dword / little-endian qword on all-0xff [thorough also the opposite byte orders] = every lane sum "
        "exactly one above a carry threshold, one byte +0x80 on pseudo-random); each state carries the checksum TLC computed from "
        "the RFC 1071 definition for every start offset 0..63 from a 64-byte boundary x every initial value (0, 1, 0x8000, 0xfffe, "
        "0xffff + 1 seeded [thorough + 0xff, 0x100, 0x7fff, 0xff00, 0xabcd + 2 seeded]). TLC checks on every state that the table "
        "evaluator equals the linear RFC definition (sampled offsets, lengths <= 4200) and the RFC's laws (even split = initial "
        "value, odd split with byte swap, byte order independence, incremental update, fold closed form, zero representation, "
        "chunk-wise summation). Every (state, offset, initial value) is executed on checksum.Checksum, on checksumAVX2 directly "
        "and on the gvisor fallback; distinct = (state, offset). D: seeded densification (same patterns, neighbouring and "
        "arbitrary lengths <= 4300, random spikes of width 1/2/4/8, any offset, any 16-bit initial value; quick 150000, thorough "
        "1500000 buffers) of Checksum/checksumAVX2 against the fallback")
ASSUMPTIONS = [
    "'the same value' is read bit for bit, including the representation of one's complement zero: the straightforward RFC 1071 "
    "sum (wide accumulator, fold at the end) yields 0x0000 only for the empty sum (initial 0 and all bytes 0) and 0xffff for every "
    "other zero; a mismatch that is only 0x0000 vs 0xffff is reported under a key ending in ':zero-representation'",
    "the initial value is a uint16 added as one more 16-bit word (gvisor's contract, adopted by the doc comment of "
    "checksum.Checksum: a partial sum over an even number of preceding bytes); the result is not complemented; 0xffff is the "
    "largest initial value the API type admits",
    "an odd trailing byte is padded with a zero on the right (RFC 1071 section 1)",
    "alignment = start offset 0..63 from a 64-byte aligned address (two AVX2 vector widths); the bytes around the buffer are "
    "non-zero poison, so reads outside the buffer change the result",
    "the AVX2 routine must be executed: on a CPU without AVX2 the check is vacuous (exit 2), it does not pass",
    "densification (D) uses gvisor's pure-Go Checksum (the routine Checksum falls back to without AVX2) as the expectation; it "
    "runs only when that routine agreed with the TLA+ reference on every TLC vector of the same run",
    "buffers are pattern families, not all byte strings: the routine is data-oblivious straight-line arithmetic, so lengths, "
    "offsets, carries and byte positions are what is enumerated",
]

MAX_KEYS = 8   # a broken routine fails in hundreds of classes; report the first ones, count the rest


def convert(text):
    """TLC's print of a state value (records, tuples, integers, strings) -> JSON text."""
    text = text.replace('[', '{').replace(']', '}').replace('<<', '[').replace('>>', ']')
    return re.sub(r'(\w+)\s*\|->\s*', r'"\1": ', text)


def parse_dump(path):
    with open(path) as f:
        text = f.read()
    out = []
    for blk in re.split(r'^State \d+:.*$', text, flags=re.M):
        blk = blk.strip()
        if not blk:
            continue
        st = {}
        for m in re.finditer(r'/\\ (\w+) = (.*?)(?=\n/\\ |\Z)', blk, flags=re.S):
            st[m.group(1)] = json.loads(convert(m.group(2)))
        out.append(st)
    return out


def run(ctx):
    rnd = random.Random(ctx.seed * 1000003 + 25)
    nmix = 2 if ctx.quick else 3
    mix = sorted(rnd.sample(range(1, 65536), nmix))
    inits = sorted(rnd.sample(range(2, 65534), 1 if ctx.quick else 2))
    cfg = open(ctx.spec_dir() + '/Vec_Checksum.cfg').read()
    cfg = re.sub(r'Tier = "\w+"', 'Tier = "%s"' % ctx.tier, cfg)
    cfg = re.sub(r'MixSeeds = \{[^}]*\}', 'MixSeeds = {%s}' % ', '.join(map(str, mix)), cfg)
    cfg = re.sub(r'ExtraInits = \{[^}]*\}', 'ExtraInits = {%s}' % ', '.join(map(str, inits)), cfg)
    ctx.extra['mix_seeds'] = mix
    ctx.extra['seeded_initial_values'] = inits
    d = ctx.spec_dir()
    dump = os.path.join(d, 'c25_vec')
    ctx.tlc('Checksum', 'Vec_Checksum_run.cfg', args=['-dump', dump], cfgtext=cfg, workers=8,
            timeout=600 if ctx.quick else 3000)
    path = dump + '.dump' if os.path.exists(dump + '.dump') else dump
    states = parse_dump(path)
    os.remove(path)
    cfgs = [s['in'] for s in states if s['in']['kind'] == 'cfg']
    vecs = [s for s in states if s['in']['kind'] == 'vec']
    if len(cfgs) != 1 or not vecs:
        raise MachineryError('Checksum.tla produced %d configuration states and %d vectors' % (len(cfgs), len(vecs)))
    # TLC's workers dump in any order: canonical order, so that a run is a function of the tree and VERIF_SEED only
    vecs.sort(key=lambda s: (s['in']['p']['k'], s['in']['p']['a'], s['in']['p']['b'], s['in']['len'], s['in']['sq'], s['in']['sw'], s['in']['so'], s['in']['sd']))
    noff, ninit = len(cfgs[0]['offs']), len(cfgs[0]['inits'])
    with open(os.path.join(ctx.scratch, 'vectors.ndjson'), 'w') as f:
        f.write(json.dumps(cfgs[0], separators=(',', ':')) + '\n')
        for s in vecs:
            o = dict(s['in'])
            o['exp'] = s['exp']
            o['probe'] = s['probe']
            f.write(json.dumps(o, separators=(',', ':')) + '\n')
    for s in vecs[:: max(1, len(vecs) // 2)][:2]:
        ctx.samples.append({'vector': s['in'], 'expected_at_offset_0': s['exp'][0], 'initial_values': cfgs[0]['inits']})
    ctx.extra['vectors'] = len(vecs)
    ctx.extra['offsets'] = noff
    ctx.extra['initial_values'] = cfgs[0]['inits']
    ctx.extra['expectations_computed_by_tlc'] = len(vecs) * noff * ninit
    ctx.extra['lengths'] = len({s['in']['len'] for s in vecs})
    del states

    res = ctx.gotest('overlay/checksum', 'TestVerif_C25', timeout=1800)
    ctx.extra.update(res.get('extra') or {})
    mm = res.get('mismatches') or []
    keys = []
    for m in mm:
        if m['key'] not in keys:
            keys.append(m['key'])
    # shortest failing input first; at most MAX_KEYS classes become violations (all are counted)
    first = {}
    for m in mm:
        k = m['key']
        if k not in first or (m['detail']['len'], m['detail']['off']) < (first[k]['detail']['len'], first[k]['detail']['off']):
            first[k] = m
    order = sorted(first, key=lambda k: (k.startswith('dense:'), k.startswith('fallback'), first[k]['detail']['len'], k))
    for k in order[:MAX_KEYS]:
        ctx.violation(k, first[k]['what'], first[k]['detail'])
    if len(order) > MAX_KEYS:
        ctx.extra['failing_classes_total'] = len(order)
        ctx.extra['failing_classes_not_listed'] = order[MAX_KEYS:]
    ctx.traces += len(vecs) * noff * ninit
    if not ctx.violations:
        # vacuity guards: the assembly ran, the dispatcher ran, every pattern family and every code path class was present
        if ctx.actions.get('no-avx2'):
            raise MachineryError('vacuous run: this CPU has no AVX2, checksumAVX2 was not executed')
        ctx.require_actions('avx2', 'dispatch', 'fallback', 'dense', 'fenced:end', 'fenced:start', 'pattern:const', 'pattern:alt', 'pattern:ramp', 'pattern:mix',
                            'pattern:const+spike', 'pattern:mix+spike', 'len_lt32', 'len32-63', 'len_ge64')


META = {
    'category': 'model_checking',
    'technique': 'TLA+ function specification Checksum.tla (RFC 1071 sum over symbolic buffers); TLC enumerates pattern x length x '
                 'spike, computes the expected checksum for 64 start offsets x all initial values from the RFC definition, checks '
                 'the evaluator against the linear definition and the RFC\'s algebraic laws on every state; every expectation is '
                 'executed on Checksum, checksumAVX2 and the gvisor fallback',
    'text': 'RFC 1071 is transcribed into TLA+ (16-bit big-endian words, odd byte padded on the right, end-around carry fold, '
            'initial value added as one more word, result not complemented). Buffers are symbolic (pattern family, length, one-byte '
            'spike); TLC computes the expected sums itself (prefix-sum tables of the periodic patterns, cross-checked against the '
            'linear definition and the laws of RFC 1071 1.2.A/1.2.B and RFC 1624 on every state). The harness materialises each '
            'buffer at every start offset 0..63 from a 64-byte aligned address between poison bytes, calls Checksum, the AVX2 '
            'routine directly and the pure-Go fallback with every initial value and compares with TLC; then it densifies '
            '(neighbouring lengths, random spikes, any 16-bit initial value) against the fallback once that was shown equal to '
            'the reference on all vectors. Exits 2 on a CPU without AVX2.',
    'design_ref': '3.10 C25',
    'note': 'Pattern families, not all byte strings; amd64/AVX2 only (the arm64 NEON routine is not executable here). Buffers '
            'longer than 131079 bytes are not covered.',
}
