"""C28 — hostmap indexes stay consistent (spec/Hostmap.tla).  Also hosts the pipeline shared with C29."""
import json, os, random, re, glob, shutil
from concurrent.futures import ThreadPoolExecutor
from tools import tours, tlaval

RULE = ("MC: TLC checks the C28/C29 invariants and action properties of Hostmap.tla (incl. the Add link: the per-address "
        "loop refines 'new tunnel primary everywhere, only whole tunnels from over-full lists evicted'). R: edge tours of a "
        "small state graph + seeded TLC simulations (cap 5, up to 10 never-recycled tunnel objects, stale delete/promote/"
        "relay) replayed on a real HostMap/HandshakeManager with real HostInfo objects; after every step the six maps "
        "are projected to tunnel ids and compared, results (final, error class, returned index) compared, and the "
        "invariants evaluated on the real maps; distinct = (graph, edge) / (pre-state, action). T: seeded random "
        "operation sequences (200 ops, 6 overlapping certificates, natural index draws from a small space) validated line "
        "by line by TLC against Trace_Hostmap.tla")
ASSUMPTIONS = [
    "which tunnel an Add evicts is not compared (design rule 2.9-2): any set of whole tunnels taken from lists that would "
    "exceed the cap, at most one per such list, is accepted",
    "stale main-map calls (Delete / MakePrimary / AddRelay) are made only with tunnels that were in the main maps once; "
    "the pending-map delete is made with pending tunnels and (as handleRecvError does) with such main tunnels",
    "allocateIndex is called once per pending handshake (buildStage0Packet cannot fail after the allocation in this tree)",
    "CheckAndComplete's 'handshake too old' outcome is concretised relative to the current primary's handshake time "
    "(equal or one less = not newer, one more = newer)",
    "address / index / remote index values are concretised injectively (10.77.0.a, i<<24|i<<8|0x5a, 0xa0000000|r)",
]

SHAPES = {
    'ShapesA': [[1], [2], [1, 2], [2, 3]],
    'ShapesB': [[1], [1, 2], [2, 1]],
    'ShapesC': [[1], [2], [1, 2], [2, 3], [3, 4, 1], [4]],
    'ShapesD': [[1], [1, 2]],
    'ShapesE': [[1]],
}
INVS = 'TypeOK HostsOK LiveListed NoDangling IndexesOK DeleteErases DeleteFinal Disjoint PendingOK UniqueIdx UniqueRel'
PROPS = 'NoResurrection IndexOwner RemoteOwner'
KEEP = {'hosts', 'indexes', 'remoteIndexes', 'relays', 'vpnIps', 'pIndexes'}


def P(NT, NA, NI, NR, shapes, maxper, maxrel):
    return {'NT': NT, 'NA': NA, 'NI': NI, 'NR': NR, 'Shapes': shapes, 'MaxPerAddr': maxper, 'MaxRel': maxrel}


def cfgtext(p, spec='Spec', props=True, view=True):
    s = 'SPECIFICATION %s\nCONSTANTS NT = %d\n NA = %d\n NI = %d\n NR = %d\n Shapes <- %s\n MaxPerAddr = %d\n MaxRel = %d\n' \
        ' OwnerTest = TRUE\nINVARIANTS %s\n' % (spec, p['NT'], p['NA'], p['NI'], p['NR'], p['Shapes'], p['MaxPerAddr'],
                                                 p['MaxRel'], INVS)
    if props:
        s += 'PROPERTIES %s\n' % PROPS
    if view:
        s += 'VIEW View\n'
    return s + 'CHECK_DEADLOCK FALSE\n'


def goparams(p):
    return {k: p[k] for k in ('NT', 'NA', 'NI', 'NR', 'MaxPerAddr')}


def mc(ctx, name, p, timeout=900):
    r = ctx.tlc('Hostmap', 'MC_Hostmap_%s.cfg' % name, cfgtext=cfgtext(p), timeout=timeout)
    ctx.extra.setdefault('mc', {})[name] = {'params': p, 'distinct': r['distinct'], 'generated': r['generated'], 'wall_s': r['wall_s']}


def graph(ctx, name, p, limit_edges=None, max_len=40):
    """MC of a small configuration with the labelled next-state relation, dumped and turned into edge tours."""
    dot = os.path.join(ctx.spec_dir(), 'hm_%s.dot' % name)
    r = ctx.tlc('Hostmap', 'MC_Hostmap_%s.cfg' % name, cfgtext=cfgtext(p, spec='SpecL'),
                args=['-dump', 'dot,actionlabels', dot])
    out = 'hm_graph_%s.json' % name
    rnd = random.Random('%d/%s' % (ctx.seed, name))
    # TLC's workers write the dump in a run-dependent order: canonicalise states and edges first, so that the tours
    # (and, with limit_edges, the chosen subset of edges) depend on VERIF_SEED only
    states, init, edges = tours.load_dot(dot, None)
    canon = [json.dumps({k: v for k, v in s.items() if k != 'step'}, sort_keys=True) for s in states]   # step is hidden by View
    order = sorted(range(len(states)), key=lambda k: canon[k])
    new_id = {old: new for new, old in enumerate(order)}
    states = [{k: v for k, v in states[k].items() if k in KEEP} for k in order]
    init = sorted(new_id[k] for k in init)
    edges = sorted(([new_id[e[0]], new_id[e[1]], e[2], e[3]] for e in edges), key=lambda e: (e[0], e[1], e[2], json.dumps(e[3])))
    trs, ncov = tours.make_tours(states, init, edges, max_len, limit_edges, rnd)
    with open(os.path.join(ctx.scratch, out), 'w') as f:
        json.dump({'states': states, 'init': init, 'edges': edges, 'tours': trs}, f)
    st = {'states': len(states), 'edges': len(edges), 'tours': len(trs), 'edges_covered': ncov, 'steps': sum(len(t) for t in trs)}
    os.remove(dot)
    want = st['edges'] if limit_edges is None else min(limit_edges, st['edges'])
    if st['edges_covered'] < want:
        raise merr('edge cover incomplete for %s: %s' % (name, st))
    st['params'] = p
    st['distinct'] = r['distinct']
    ctx.extra.setdefault('graphs', {})[name] = st
    return {'file': out, 'params': goparams(p)}


_state_hdr = re.compile(r'^STATE_\d+ ==\s*$', re.M)


def parse_sim_file(path):
    with open(path) as f:
        text = f.read()
    parts = _state_hdr.split(text)[1:]
    states = []
    for part in parts:
        lines = [ln for ln in part.split('\n') if not ln.startswith('\\*') and not ln.startswith('====') and not ln.startswith('----')]
        body = '\n'.join(lines).strip()
        if body:
            states.append(tlaval.parse_state(body))
    return states


def sims(ctx, name, p, num, depth, workers=1, timeout=900):
    """Seeded TLC simulation; invariants are checked along every behaviour; behaviours become replay input."""
    d = os.path.join(ctx.spec_dir(), 'sim_%s' % name)
    shutil.rmtree(d, ignore_errors=True)
    os.makedirs(d)
    r = ctx.tlc('Hostmap', 'SIM_Hostmap_%s.cfg' % name, cfgtext=cfgtext(p, props=False, view=False), workers=workers, timeout=timeout,
                args=['-simulate', 'file=%s/s,num=%d' % (d, num), '-depth', str(depth), '-seed', str(ctx.seed * 1000 + 17)])
    m = re.search(r'number of states generated: (\d+)', r['out'])
    if m:
        ctx.transitions += int(m.group(1))
    behs = []
    nsteps = 0
    for fn in sorted(glob.glob(os.path.join(d, 's_*'))):
        sts = parse_sim_file(fn)
        beh = []
        for s in sts[1:]:
            stp = s['step']
            beh.append({'act': stp['act'], 't': stp['t'], 'sh': stp['sh'], 'i': stp['i'], 'r': stp['r'], 'dup': stp['dup'],
                        'older': stp['older'], 'res': stp['res'], 'post': {k: s[k] for k in KEEP}})
        if beh:
            behs.append(beh)
            nsteps += len(beh)
    shutil.rmtree(d, ignore_errors=True)
    if not behs:
        raise merr('simulation %s produced no behaviours:\n%s' % (name, r['out'][-1500:]))
    out = 'hm_sim_%s.json' % name
    with open(os.path.join(ctx.scratch, out), 'w') as f:
        json.dump({'behaviours': behs}, f)
    ctx.extra.setdefault('sims', {})[name] = {'params': p, 'behaviours': len(behs), 'steps': nsteps, 'depth': depth}
    if behs:
        b = behs[len(behs) // 2]
        ctx.samples.append({'simulated_behaviour': ['%s(t=%s,sh=%s,i=%s,res=%s)' % (s['act'], s['t'], s['sh'], s['i'], s['res']) for s in b[:12]]})
    return {'file': out, 'params': goparams(p)}


TRACE_P = P(260, 4, 12, 3, 'ShapesC', 5, 13)


def relevant(prop, key):
    """Both properties run the same binding; each takes the disagreements that concern its own statement:
    C28 = main maps (addresses, liveness, erase-every-reference, final, no resurrection), C29 = index namespaces."""
    if prop == 'C28':
        return 'DeletePending' not in key and not re.search(r':(pIndexes|vpnIps)$', key) and 'AllocateIndex' not in key
    return not re.search(r':(hosts|final)$', key)


def pipeline(ctx, prop, plan_graphs, plan_sims, traces, ops):
    plan = {'graphs': plan_graphs, 'sims': plan_sims,
            'trace': {'params': goparams(TRACE_P), 'shapes': SHAPES[TRACE_P['Shapes']], 'traces': traces, 'ops': ops}}
    with open(os.path.join(ctx.scratch, '%s_plan.json' % prop.lower()), 'w') as f:
        json.dump(plan, f)
    res = ctx.gotest('.', 'TestVerif_%s' % prop, also=('hm',), timeout=1500)
    if (res.get('extra') or {}).get('unscripted_draws'):
        raise merr('the code read %d index draws that the scripted crypto/rand.Reader could not answer (draw protocol changed?)'
                   % res['extra']['unscripted_draws'])
    for m in res.get('mismatches') or []:
        if relevant(prop, m.get('key', '')):
            ctx.violation(m.get('key', 'mismatch'), m.get('what', ''), m.get('detail'))
        else:
            ctx.extra.setdefault('left_to_other_property', []).append(m.get('key'))
    tf = os.path.join(res['_outdir'], 'trace_hostmap.ndjson')
    if traces and os.path.exists(tf) and os.path.getsize(tf) > 0:
        # size the tunnel-object array to what the traces actually created (cheaper states for TLC)
        with open(tf) as f:
            nt = max([json.loads(ln).get('t', 0) for ln in f if ln.strip()] + [1]) + 2
        with open(os.path.join(ctx.spec_dir(), 'Trace_Hostmap.cfg')) as f:
            tcfg = f.read().replace('NT = 260', 'NT = %d' % min(nt, TRACE_P['NT']))
        fails, ok = ctx.validate_traces('Trace_Hostmap', 'Trace_Hostmap_run.cfg', tf, max_fail=2, cfgtext=tcfg)
        ctx.traces += ok
        for fl in fails:
            ln = fl['line']
            key = 'trace:%s%s' % (ln.get('ev'), ':stale' if ln.get('stale') else '')
            if not relevant(prop, key):
                ctx.extra.setdefault('left_to_other_property', []).append(key)
                continue
            args = {k: ln[k] for k in ('t', 'a', 'sh', 'i', 'r', 'dup', 'older', 'res', 'draws') if k in ln}
            ctx.violation(key, 'recorded call %s%s with result/maps %s is not a behaviour of Hostmap.tla (line %d of its trace)' %
                          (ln.get('ev'), json.dumps(args), json.dumps({k: ln.get(k) for k in sorted(KEEP)}), fl['lineno_in_trace']), fl)
    return res


def merr(msg):
    from tools.check import MachineryError
    return MachineryError(msg)


def prepare(ctx, mcs=(), graphs=(), simulations=()):
    """The TLC jobs that do not depend on each other run side by side (each has its own cfg, metadir and outputs)."""
    ctx.spec_dir()
    with ThreadPoolExecutor(max_workers=3) as ex:
        fm = [ex.submit(mc, ctx, *a, **k) for a, k in mcs]
        fg = [ex.submit(graph, ctx, *a, **k) for a, k in graphs]
        fs = [ex.submit(sims, ctx, *a, **k) for a, k in simulations]
        for f in fm:
            f.result()
        return [f.result() for f in fg], [f.result() for f in fs]


def J(*a, **k):
    return (a, k)


def run(ctx):
    if ctx.quick:
        g, sm = prepare(ctx, graphs=[J('g2D', P(2, 2, 2, 1, 'ShapesD', 5, 1), limit_edges=12000)],
                        simulations=[J('evict', P(10, 2, 7, 2, 'ShapesB', 5, 1), num=120, depth=70)])
        traces, ops = 12, 200
    else:
        g, sm = prepare(ctx,
                        mcs=[J('design', P(3, 3, 2, 1, 'ShapesA', 2, 1), timeout=3000),     # eviction, overlapping + divergent shapes
                             J('cap1', P(3, 2, 2, 1, 'ShapesB', 1, 1), timeout=3000)],
                        graphs=[J('g2A', P(2, 3, 2, 1, 'ShapesA', 5, 1), max_len=60),
                                J('g3E', P(3, 1, 2, 1, 'ShapesE', 5, 1), limit_edges=60000, max_len=60)],
                        simulations=[J('evict', P(10, 2, 7, 2, 'ShapesB', 5, 1), num=600, depth=80),
                                     J('peers', P(9, 4, 6, 2, 'ShapesC', 5, 2), num=600, depth=70),
                                     J('crowded', P(8, 3, 3, 1, 'ShapesA', 5, 2), num=400, depth=60)])
        traces, ops = 80, 220
    pipeline(ctx, 'C28', g, sm, traces, ops)
    if ctx.violations:      # behaviours are cut at the first disagreement: coverage of later steps is not expected
        return
    ctx.require_actions('StartHandshake', 'AllocateIndex', 'CheckAndComplete', 'Complete', 'Delete', 'Delete:stale', 'MakePrimary',
                        'MakePrimary:stale', 'AddRelay', 'AddRelay:stale', 'DeletePending', 'evict', 'T:Delete', 'T:Delete:stale',
                        'T:MakePrimary:stale', 'T:CheckAndComplete:ok', 'T:Complete', 'T:AddRelay')


META = {
    'category': 'model_checking',
    'technique': 'TLA+ spec Hostmap.tla (main + pending maps, never-recycled tunnel objects, stale references): TLC checks the '
                 'reference invariants/action properties and the Add refinement link; state-graph edge tours and seeded TLC '
                 'simulations are replayed on a real HostMap/HandshakeManager (projection compared after every step, invariants '
                 'evaluated on the real maps); recorded random operation sequences are validated by TLC',
    'text': 'Every overlay address maps to a primary heading at most five distinct live tunnels owning it, everything reachable '
            'is live, a removal erases exactly the references to the removed tunnel and reports final correctly, and a removed '
            'tunnel is never re-inserted by MakePrimary/AddRelay: checked exhaustively on the design, per transition on the real '
            'code, and on recorded executions beyond the model bounds.',
    'design_ref': '3.3 C28',
    'note': 'Trusts TLC and the tours/trace tooling in /verif/tools. RelayState contents (states of relay entries) and the '
            'lighthouse / timer side effects of the calls are outside this property.',
}
