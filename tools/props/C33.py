"""C33 — the timer wheel fires each item once, on time (spec/TimerWheel.tla)."""
import json, os, random
from tools import tours
from tools.check import MachineryError

RULE = ("MC: TLC proves for small wheels (tick 1..3 units, span 2..7 units, 1-3 re-usable items, timeouts below/at/above tick and "
        "span, clock gaps up to more than a revolution) that the slot machine of timeout.go returns every outstanding item exactly "
        "once, never before added+min(RoundUp(timeout),span) and is returnable after an Advance at added+RoundUp(min(timeout,span))"
        "+2 ticks. R: one replayed step per edge of those state graphs on a real TimerWheel / LockingTimerWheel under 3 time units; "
        "distinct = (graph, unit, edge). The recycled-item cache (bounded freelist) is modelled with a scaled bound (CacheMax 1-2, "
        "separate actions for Add from an empty / non-empty cache and Purge into a non-full / full cache) and bound by scaling: in "
        "the 'cache' graphs one model item is replayed as timerCacheMax/CacheMax real items, so the model's bound is the real "
        "50000; every Add/Purge edge is also followed by a settling suffix (add, advance past the span, drain). T: seeded random "
        "histories on real wheels of 3-6 geometries validated by TLC against the reference layer only; every fourth history holds "
        "a burst of about timerCacheMax unrecorded items that is drained around the recorded items, every fourth has its cache "
        "topped up to the limit")
ASSUMPTIONS = [
    "the guarantee is claimed only for items added right after Advance(now) with the same now ('a wheel that was advanced to the "
    "current time'); other adds are exercised but only 'never returned twice' is checked for them",
    "time is monotone (Advance is never called with an earlier time)",
    "where the orders 'cap at the span' and 'round up to the tick' differ (span not a multiple of the tick) the weaker bound is used "
    "on each side: not before min(RoundUp(timeout), span); returnable by RoundUp(min(timeout, span)) + 2 ticks",
    "the order in which Purge returns simultaneously expired items is not part of the property",
    "'returned no later than' is read as: an Advance(now) with now >= the bound makes the item returnable by Purge",
    "the ~50000 items of a burst in T histories are not written to the trace: for them the harness checks only 'returned exactly "
    "once after a final Advance past the span' (keys burst:*); the recorded items around the burst are validated by TLC",
]

QUICK_GRAPHS = [('1_2', 1, 2), ('2_5', 2, 5)]
THOROUGH_GRAPHS = QUICK_GRAPHS + [('1_3', 1, 3), ('3_7', 3, 7)]
# graphs replayed with the item cache bound by scaling: (name, tick, span, CacheMax of the cfg, time units); one model item is
# replayed as timerCacheMax/CacheMax real items, so that the model's cache bound IS the real one (50000)
# last field: at most that many edges get a settling suffix (None = every Add/Purge edge)
QUICK_CACHE_GRAPHS = [('cache', 1, 2, 1, 1, None)]
THOROUGH_CACHE_GRAPHS = [('cacheb', 1, 2, 1, 2, None), ('cache2', 1, 2, 2, 1, 3000)]
QUICK_GROUPS = [(1, 10), (3, 10), (5, 23)]
THOROUGH_GROUPS = QUICK_GROUPS + [(7, 7), (2, 3), (1000, 180000)]


def settle_tours(path, tick, span, rnd, limit=None):
    """Edge cover is not enough where the real object may carry hidden state that the model state does not show (a model state
    reached over the cache-full path of Purge equals the one reached over the caching path).  For the scaled cache graphs every
    Add/Purge edge that moves an item is therefore also followed by a settling suffix: add one more item (if the model offers it),
    let more than span + 2 ticks pass with Advances, purge until nothing is left -- the projection is compared after every step,
    so anything lost, duplicated or stuck after that edge shows.  Returns the number of tours appended to the graph file."""
    g = json.load(open(path))
    edges = g['edges']
    out = {}
    for ei, e in enumerate(edges):
        out.setdefault(e[0], []).append(ei)
    parent = {s: None for s in g['init']}
    dq = list(g['init'])
    while dq:
        u = dq.pop(0)
        for ei in out.get(u, []):
            v = edges[ei][1]
            if v not in parent:
                parent[v] = ei
                dq.append(v)

    def path_to(u):
        p = []
        while parent[u] is not None:
            p.append(parent[u])
            u = edges[parent[u]][0]
        return p[::-1]

    def pick(u, acts, best=None):
        c = [ei for ei in out.get(u, []) if edges[ei][2] in acts]
        if not c:
            return None
        if best:
            return max(c, key=lambda ei: edges[ei][3][0])
        return rnd.choice(c)
    maxgap = max(e[3][0] for e in edges if e[2] == 'Tick')
    rounds = (span + 3 * tick) // maxgap + 1
    targets = [ei for ei, e in enumerate(edges) if e[2] in ('AddNew', 'AddRecycled', 'PurgeCache', 'PurgeDrop') and e[0] in parent]
    rnd.shuffle(targets)
    if limit:
        targets = targets[:limit]
    added = 0
    for ei in targets:
        tour = path_to(edges[ei][0]) + [ei]
        u = edges[ei][1]

        def go(x):
            nonlocal u
            if x is not None:
                tour.append(x)
                u = edges[x][1]
            return x is not None
        if not go(pick(u, ('AddNew', 'AddRecycled'))):
            if go(pick(u, ('Advance',))):
                go(pick(u, ('AddNew', 'AddRecycled')))
        for _ in range(rounds):
            go(pick(u, ('Tick',), best=True))
            go(pick(u, ('Advance',)))
        for _ in range(8):
            x = pick(u, ('PurgeEmpty', 'PurgeCache', 'PurgeDrop'))
            go(x)
            if x is None or edges[x][2] == 'PurgeEmpty':
                break
        g['tours'].append(tour)
        added += 1
    with open(path, 'w') as f:
        json.dump(g, f)
    return added, sum(len(t) for t in g['tours'])


def run(ctx):
    graphs = QUICK_GRAPHS if ctx.quick else THOROUGH_GRAPHS
    groups = QUICK_GROUPS if ctx.quick else THOROUGH_GROUPS
    plan = {'graphs': [], 'groups': [], 'traces': 24 if ctx.quick else 120, 'events': 120 if ctx.quick else 300,
            'maxItem': 64 if ctx.quick else 160}
    rnd = random.Random(ctx.seed)
    ntours = {}
    cgraphs = QUICK_CACHE_GRAPHS if ctx.quick else THOROUGH_CACHE_GRAPHS
    for name, tick, span, cmax, units, lim in [(n, t, s, 0, 0, None) for n, t, s in graphs] + cgraphs:
        dot = os.path.join(ctx.spec_dir(), 'tw%s.dot' % name)
        ctx.tlc('TimerWheel', 'MC_TimerWheel_%s.cfg' % name, args=['-dump', 'dot,actionlabels', dot], workers=1)  # 1 worker: reproducible edge order
        out = 'c33_graph_%s.json' % name
        st = tours.build(dot, os.path.join(ctx.scratch, out), max_len=80, rnd=rnd, keep_vars={'w', 'res'})
        os.remove(dot)
        if st['edges_covered'] != st['edges']:
            raise MachineryError('edge cover incomplete for %s: %s' % (name, st))
        if cmax:
            st['settle_tours'], st['steps'] = settle_tours(os.path.join(ctx.scratch, out), tick, span, rnd, lim)
            st['tours'] += st['settle_tours']
        ctx.extra.setdefault('graphs', {})[name] = st
        plan['graphs'].append({'file': out, 'name': name if cmax else '', 'tick': tick, 'span': span, 'cacheMax': cmax, 'units': units})
        ntours[name] = st['tours'] * (units or 3)
    if not ctx.quick:
        ctx.tlc('TimerWheel', 'MC_TimerWheel_2_5x2.cfg', timeout=1500)
        ctx.tlc('TimerWheel', 'MC_TimerWheel_1_3x3.cfg', timeout=1500)
    for tick, span in groups:
        plan['groups'].append({'file': 'c33_trace_%d_%d.ndjson' % (tick, span), 'tick': tick, 'span': span})
    with open(os.path.join(ctx.scratch, 'c33_plan.json'), 'w') as f:
        json.dump(plan, f)
    res = ctx.gotest('.', 'TestVerif_C33')
    ctx.take_mismatches(res)
    ctx.traces += sum(ntours.values())
    base = open(os.path.join(ctx.spec_dir(), 'Trace_TimerWheel.cfg')).read()
    for g in plan['groups']:
        cfg = base.replace('TickD = 1', 'TickD = %d' % g['tick']).replace('Span = 10', 'Span = %d' % g['span']) \
                  .replace('MaxItem = 64', 'MaxItem = %d' % plan['maxItem'])
        fails, ok = ctx.validate_traces('Trace_TimerWheel', 'Trace_TimerWheel_%d_%d.cfg' % (g['tick'], g['span']),
                                        os.path.join(res['_outdir'], g['file']), cfgtext=cfg, max_fail=3)
        for fl in fails:
            ln = fl['line']
            kind = ln.get('ev')
            if kind == 'Purge':
                kind = 'Purge-early-or-twice' if ln.get('has') else 'Purge-empty-while-overdue'
            # the class of the history: what the harness noted before the rejected call (burst beyond the cache, purge with full cache)
            notes = [x.get('what') for x in (fl.get('trace') or fl.get('full') or []) if x.get('ev') == 'Note']
            cls = ''.join(':after-' + n for n in ('burst', 'purge-with-full-cache') if n in notes)
            ctx.violation('trace:%s:%d_%d%s' % (kind, g['tick'], g['span'], cls),
                          'recorded call %s is not permitted by the reference of TimerWheel.tla (tick %d, span %d units)' %
                          (json.dumps(ln), g['tick'], g['span']), fl)
    ctx.require_actions('Tick', 'Advance', 'AddNew', 'AddRecycled', 'PurgeEmpty', 'PurgeCache', 'PurgeDrop',
                        'R:add-new-batch', 'R:add-recycled-batch', 'R:purge-cache-full', 'R:purge-cache-full-last',
                        'T:Advance', 'T:Add', 'T:Purge', 'T:revolution', 'T:cache-limit', 'T:burst', 'T:purge-cache-full',
                        'T:purge-cache-full-last')


META = {
    'category': 'model_checking',
    'technique': 'TLA+ spec TimerWheel.tla: TLC exhaustive check that the slot machine (current/lastTick/slots/expired/bounded item cache) '
                 'refines the once-and-on-time reference; every state-graph edge replayed on real TimerWheel and LockingTimerWheel '
                 'with explicit now; recorded random histories validated by TLC against the reference layer',
    'text': 'TLC enumerates every add/advance/purge history of small wheels (incl. advances of more than a revolution, timeouts below '
            'the tick and above the span, spans that are not a multiple of the tick, adds on a stale wheel) and checks exactly-once, '
            'not-early and not-late in every state; each transition is then executed on the real wheel and the sets of returnable and '
            'outstanding items compared; beyond the model bounds seeded histories of real wheels are accepted or rejected by TLC.',
    'design_ref': '3.7 C33',
    'note': 'Trusts TLC and the tours/trace tooling in /verif/tools. Concurrency of LockingTimerWheel is not explored (single caller).',
}
