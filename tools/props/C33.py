"""C33 — the timer wheel fires each item once, on time (spec/TimerWheel.tla)."""
import json, os, random
from tools import tours
from tools.check import MachineryError

RULE = ("MC: TLC proves for small wheels (tick 1..3 units, span 2..7 units, 1-3 re-usable items, timeouts below/at/above tick and "
        "span, clock gaps up to more than a revolution) that the slot machine of timeout.go returns every outstanding item exactly "
        "once, never before added+min(RoundUp(timeout),span) and is returnable after an Advance at added+RoundUp(min(timeout,span))"
        "+2 ticks. R: one replayed step per edge of those state graphs on a real TimerWheel / LockingTimerWheel under 3 time units; "
        "distinct = (graph, unit, edge). T: seeded random histories on real wheels of 3-6 geometries validated by TLC against the "
        "reference layer only")
ASSUMPTIONS = [
    "the guarantee is claimed only for items added right after Advance(now) with the same now ('a wheel that was advanced to the "
    "current time'); other adds are exercised but only 'never returned twice' is checked for them",
    "time is monotone (Advance is never called with an earlier time)",
    "where the orders 'cap at the span' and 'round up to the tick' differ (span not a multiple of the tick) the weaker bound is used "
    "on each side: not before min(RoundUp(timeout), span); returnable by RoundUp(min(timeout, span)) + 2 ticks",
    "the order in which Purge returns simultaneously expired items is not part of the property",
    "'returned no later than' is read as: an Advance(now) with now >= the bound makes the item returnable by Purge",
]

QUICK_GRAPHS = [('1_2', 1, 2), ('2_5', 2, 5)]
THOROUGH_GRAPHS = QUICK_GRAPHS + [('1_3', 1, 3), ('3_7', 3, 7)]
QUICK_GROUPS = [(1, 10), (3, 10), (5, 23)]
THOROUGH_GROUPS = QUICK_GROUPS + [(7, 7), (2, 3), (1000, 180000)]


def run(ctx):
    graphs = QUICK_GRAPHS if ctx.quick else THOROUGH_GRAPHS
    groups = QUICK_GROUPS if ctx.quick else THOROUGH_GROUPS
    plan = {'graphs': [], 'groups': [], 'traces': 24 if ctx.quick else 120, 'events': 120 if ctx.quick else 300,
            'maxItem': 64 if ctx.quick else 160}
    rnd = random.Random(ctx.seed)
    for name, tick, span in graphs:
        dot = os.path.join(ctx.spec_dir(), 'tw%s.dot' % name)
        ctx.tlc('TimerWheel', 'MC_TimerWheel_%s.cfg' % name, args=['-dump', 'dot,actionlabels', dot], workers=1)  # 1 worker: reproducible edge order
        out = 'c33_graph_%s.json' % name
        st = tours.build(dot, os.path.join(ctx.scratch, out), max_len=80, rnd=rnd, keep_vars={'w', 'res'})
        os.remove(dot)
        if st['edges_covered'] != st['edges']:
            raise MachineryError('edge cover incomplete for %s: %s' % (name, st))
        ctx.extra.setdefault('graphs', {})[name] = st
        plan['graphs'].append({'file': out, 'tick': tick, 'span': span})
    if not ctx.quick:
        ctx.tlc('TimerWheel', 'MC_TimerWheel_2_5x2.cfg', timeout=1500)
        ctx.tlc('TimerWheel', 'MC_TimerWheel_1_3x3.cfg', timeout=1500)
    for tick, span in groups:
        plan['groups'].append({'file': 'c33_trace_%d_%d.ndjson' % (tick, span), 'tick': tick, 'span': span})
    with open(os.path.join(ctx.scratch, 'c33_plan.json'), 'w') as f:
        json.dump(plan, f)
    res = ctx.gotest('.', 'TestVerif_C33')
    ctx.take_mismatches(res)
    ctx.traces += 3 * sum(st['tours'] for st in ctx.extra['graphs'].values())
    base = open(os.path.join(ctx.spec_dir(), 'Trace_TimerWheel.cfg')).read()
    for g in plan['groups']:
        cfg = base.replace('TickD = 1', 'TickD = %d' % g['tick']).replace('Span = 10', 'Span = %d' % g['span']) \
                  .replace('MaxItem = 64', 'MaxItem = %d' % plan['maxItem'])
        fails, ok = ctx.validate_traces('Trace_TimerWheel', 'Trace_TimerWheel_%d_%d.cfg' % (g['tick'], g['span']),
                                        os.path.join(res['_outdir'], g['file']), cfgtext=cfg, max_fail=3)
        for fl in fails:
            ln = fl['line']
            kind = ln.get('ev')
            if kind == 'Purge':
                kind = 'Purge-early-or-twice' if ln.get('has') else 'Purge-empty-while-overdue'
            ctx.violation('trace:%s:%d_%d' % (kind, g['tick'], g['span']),
                          'recorded call %s is not permitted by the reference of TimerWheel.tla (tick %d, span %d units)' %
                          (json.dumps(ln), g['tick'], g['span']), fl)
    ctx.require_actions('Tick', 'Advance', 'Add', 'Purge', 'T:Advance', 'T:Add', 'T:Purge', 'T:revolution', 'T:cache-limit')


META = {
    'category': 'model_checking',
    'technique': 'TLA+ spec TimerWheel.tla: TLC exhaustive check that the slot machine (current/lastTick/slots/expired/item cache) '
                 'refines the once-and-on-time reference; every state-graph edge replayed on real TimerWheel and LockingTimerWheel '
                 'with explicit now; recorded random histories validated by TLC against the reference layer',
    'text': 'TLC enumerates every add/advance/purge history of small wheels (incl. advances of more than a revolution, timeouts below '
            'the tick and above the span, spans that are not a multiple of the tick, adds on a stale wheel) and checks exactly-once, '
            'not-early and not-late in every state; each transition is then executed on the real wheel and the sets of returnable and '
            'outstanding items compared; beyond the model bounds seeded histories of real wheels are accepted or rejected by TLC.',
    'design_ref': '3.7 C33',
    'note': 'Trusts TLC and the tours/trace tooling in /verif/tools. Concurrency of LockingTimerWheel is not explored (single caller).',
}
