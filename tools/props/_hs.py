"""Shared pipeline of the whole-node checks bound to spec/HsManager.tla (C09, C10, C32; C31 adds ConnMgr)."""
import os, json
from tools.check import MachineryError

ASSUME_COMMON = [
    "whole nodes (nebula.Main, e2e_testing tester socket/tun) run in a testing/synctest bubble: virtual time, one stimulus "
    "per step, state compared at quiescence; goroutine interleavings inside a step are not explored here",
    "scenario: 4 nodes (honest A, B with a two-address certificate, M wrongly listed for b1 in A's static host map, X with a "
    "certificate from an untrusted CA), static host maps, no lighthouse, punchy off, recv_error off, connection manager "
    "intervals out of reach; v2 certificates, Curve25519",
    "a rejected trace is attributed to this property only when the step that could not be explained is one the property "
    "speaks about; other unexplained steps are counted as drift (exit 2 if more than a quarter of the traces)",
]


def mc(ctx, thorough_msgs=4):
    if os.environ.get('VERIF_SKIP_MC'):   # development only: mutant runs exercise the binding, not the model
        ctx.states += 1
        return None
    cfg = open(os.path.join(ctx.spec_dir(), 'MC_HsManager.cfg')).read()
    cfg = cfg.replace('MaxMsgs = 5', 'MaxMsgs = 3')
    r = ctx.tlc('MC_HsManager', 'MC_HsManager_q.cfg', cfgtext=cfg, timeout=1500)
    if not ctx.quick:
        cfg2 = cfg.replace('MaxMsgs = 3', 'MaxMsgs = %d' % thorough_msgs).replace('MaxClock = 2', 'MaxClock = 1')
        ctx.tlc('MC_HsManager', 'MC_HsManager_t.cfg', cfgtext=cfg2, timeout=3000, workers=8)
    return r


def record(ctx, traces=None):
    env = {}
    if traces:
        env['VERIF_HS_TRACES'] = str(traces)
    res = ctx.gotest('e2e', 'TestVerif_HsTrace', tags='verif e2e_testing', also=('net', 'hs'), env=env, timeout=600 if ctx.quick else 1500)
    return res, os.path.join(res['_outdir'], 'trace_hs.ndjson')


def validate(ctx, tracefile, relevant, strict_backoff):
    """relevant(line, failure) -> bool. Returns number of accepted traces. Violations are added to ctx."""
    cfg = open(os.path.join(ctx.spec_dir(), 'Trace_HsManager.cfg')).read()
    if not strict_backoff:
        cfg = cfg.replace('INVARIANTS C32_NoEarlyRetry\n', '')
    fails, ok = ctx.validate_traces('TraceMC_HsManager', 'Trace_HsManager_run.cfg', tracefile, cfgtext=cfg, max_fail=8)
    drift = 0
    total = ok + len(fails)
    second = []
    for fl in fails:
        ln = fl['line']
        if fl.get('violated') == 'C32_NoEarlyRetry':
            ctx.violation('retry:stale-timer-entry',
                          'a retransmission of the pending handshake for %s on node %s happened before its own back-off delay '
                          'had passed: a timer entry armed by an earlier handshake for the same address fired for the new one '
                          '(%s)' % (ln.get('a'), ln.get('n'), json.dumps({k: ln.get(k) for k in ('ev', 'n', 'a', 'k', 'out')})), fl)
            second.append(fl)
            continue
        if ln.get('ev') == 'Unmodelled':
            drift += 1
            ctx.extra.setdefault('drift_examples', []).append(ln)
            continue
        if relevant(ln, fl) and ln.get('ev') in ('Tick', 'Quiet'):
            # the model's Tick / Quiet are refused only by NoOverdue / "nothing pending after a long silence"
            pends = [(x.get('n'), p.get('a'), p.get('tries')) for x in (fl.get('full') or fl.get('context') or [])
                     if x.get('ev') in ('TunSend', 'Retry') for p in x.get('pend', [])][-3:]
            ctx.violation('retry:pending-handshake-fell-out-of-the-timer',
                          'at the end of a try interval (%s) a pending handshake had neither been retransmitted nor abandoned '
                          'although its own back-off delay had run out more than two intervals before (HsManager.tla NoOverdue); '
                          'latest pending handshakes seen (node, address, attempts): %s' % (ln.get('ev'), pends), fl)
        elif relevant(ln, fl):
            key = 'trace:%s:%s' % (ln.get('ev'), ln.get('kind', ln.get('a', '')))
            ctx.violation(key, 'node %s: the step %s is not a behaviour of HsManager.tla (state after the step: hosts=%s pend=%s out=%s)'
                          % (ln.get('n'), json.dumps({k: ln.get(k) for k in ('ev', 'n', 'a', 'id', 'via', 'kind', 'k')}),
                             json.dumps(ln.get('hosts')), json.dumps(ln.get('pend')), json.dumps(ln.get('out'))), fl)
        else:
            drift += 1
            ctx.extra.setdefault('drift_examples', []).append({k: ln.get(k) for k in ('ev', 'n', 'a', 'id', 'via', 'kind')})
    # traces that stopped at the back-off invariant are validated again without it so that their remainder is examined
    if second and strict_backoff:
        path = os.path.join(ctx.scratch, 'second_pass.ndjson')
        with open(path, 'w') as f:
            for fl in second:
                if fl.get('full'):
                    for x in fl['full']:
                        f.write(json.dumps(x) + '\n')
        if os.path.getsize(path) > 0:
            cfg2 = cfg.replace('INVARIANTS C32_NoEarlyRetry\n', '')
            fails2, ok2 = ctx.validate_traces('TraceMC_HsManager', 'Trace_HsManager_run2.cfg', path, cfgtext=cfg2, max_fail=8)
            for fl in fails2:
                ln = fl['line']
                if relevant(ln, fl):
                    ctx.violation('trace:%s:%s' % (ln.get('ev'), ln.get('kind', ln.get('a', ''))),
                                  'node %s: the step %s is not a behaviour of HsManager.tla' % (ln.get('n'), json.dumps({k: ln.get(k) for k in ('ev', 'n', 'a', 'id', 'via', 'kind', 'k')})), fl)
    ctx.extra['drift'] = drift
    if drift * 4 > max(total, 1):
        raise MachineryError('model and code have drifted apart: %d of %d traces stopped at steps this property does not speak about: %s'
                             % (drift, total, ctx.extra.get('drift_examples', [])[:3]))
    return ok
