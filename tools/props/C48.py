"""C48 — calculated remotes splice mask and overlay bits exactly (spec/CalcRemote.tla, vector mode + observations)."""
import json, os

RULE = ("V: every element of CalcRemote.tla's lattice (8-bit abstract addresses: every mask length 0..8 x mask/address "
        "patterns x ranges holding / just missing the address x both families x boundary ports x refused configs) is one "
        "TLC state; each is concretised under 3 stretch profiles per family (/0../32, /0../128, byte and non-byte "
        "boundaries, across the 64-bit word boundary), written as YAML, parsed and applied by the real code; distinct = "
        "(vector, profile). T: seeded random full-width cases judged by TLC (Trace_CalcRemote)")
ASSUMPTIONS = [
    "one range per family per configuration (the statement does not say which of two nested ranges wins); a range may carry "
    "several mask entries (twin vectors), each produces its own remote",
    "the result is observed as the peer's remote list after addCalculatedRemotes (no allow list, own networks disjoint) "
    "and by calling ApplyV4/ApplyV6 directly",
    "a calculated IPv6 remote that happens to be IPv4-mapped (::ffff:a.b.c.d) is handed out by the lighthouse unmapped; "
    "both forms are the same address (ApplyV6's raw Hi/Lo are compared bit-exactly on the direct path)",
    "'mask prefixes of every length': the abstract lengths 0..8 are mapped onto 24 real lengths per family by the stretch "
    "profiles; every real length 0..32 / 0..128 is additionally drawn by the random driver",
]


def run(ctx):
    cfg = open(ctx.spec_dir() + '/Vec_CalcRemote.cfg').read()
    if not ctx.quick:
        cfg = cfg.replace('Thorough = FALSE', 'Thorough = TRUE')
    n = ctx.tlc_vectors('CalcRemote', 'Vec_CalcRemote_run.cfg', cfgtext=cfg, timeout=1200)
    ctx.extra['vectors'] = n
    res = ctx.gotest('.', 'TestVerif_C48')
    ctx.take_mismatches(res)
    ctx.traces += 3 * n
    # T: observations judged by the specification
    obs = {}
    with open(os.path.join(res['_outdir'], 'obs.ndjson')) as f, open(os.path.join(ctx.spec_dir(), 'obs.ndjson'), 'w') as g:
        for line in f:
            o = json.loads(line)
            obs[o['k']] = {'yaml': o.pop('yaml'), 'addr': o.pop('addr'), 'got': o['got'], 'ret': o['ret'], 'err': o['err']}
            g.write(json.dumps(o, separators=(',', ':')) + '\n')
    m = ctx.tlc_vectors('Trace_CalcRemote', 'Trace_CalcRemote.cfg', out='verdicts.ndjson', sample=1, timeout=1200)
    if m != len(obs):
        from tools.check import MachineryError
        raise MachineryError('Trace_CalcRemote judged %d of %d observations' % (m, len(obs)))
    ctx.traces += m
    with open(os.path.join(ctx.scratch, 'verdicts.ndjson')) as f:
        for line in f:
            v = json.loads(line)['exp']
            o = obs[v['k']]
            fam = 'v6' if ':' in o['addr'] else 'v4'
            if not v['refusal']:
                ctx.violation('random:config-refusal', 'configuration %s: refused=%s, specification disagrees' % (o['yaml'], o['err']), o)
            elif not v['set']:
                ctx.violation('random:%s:remotes' % fam, 'calculated remotes of %s differ from the specification (%d expected); config:\n%s'
                              % (o['addr'], v['nwant'], o['yaml']), o)
            elif not v['ret']:
                ctx.violation('random:%s:return' % fam, 'addCalculatedRemotes(%s) returned %s, specification produces %d'
                              % (o['addr'], o['ret'], v['nwant']), o)
    ctx.require_actions('ApplyV4', 'ApplyV6', 'produced:several-entries-of-one-range', 'produced:v4', 'produced:v6', 'not-produced:v4', 'not-produced:v6',
                        'refused-config', 'T:v4', 'T:v6')


META = {
    'category': 'model_checking',
    'technique': 'TLA+ function specification CalcRemote.tla (bit-string splice, range/family gate) with an implementation-shaped '
                 'word machine linked by TLC; vectors concretised on the real config parser, ApplyV4/ApplyV6 and lighthouse; '
                 'random full-width observations judged by TLC',
    'text': 'Apply(mask/len, addr) = mask bits before len, overlay bits after; produced only for an address of the range\'s '
            'family inside the range; port kept; family mix and non-ports refused. TLC checks that the one-word and the '
            'two-half-word integer machines compute the splice for every length, and emits expected results; the harness '
            'stretches the abstract bits onto real IPv4/IPv6 prefixes and compares what the real lighthouse stores.',
    'design_ref': '3.6 C48',
}
