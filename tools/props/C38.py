"""C38 — allow lists use longest-prefix semantics with a safe default (spec/AllowList.tla, vector mode + observations)."""
import json, os

RULE = ("V: every element of AllowList.tla's lattice is one TLC state: all lists of <=3 prefixes (W-bit addresses, W=2 "
        "quick / 3 thorough) of one family with every assignment of values x contexts of the other family x 3 ways of "
        "writing IPv4 keys (plain, all mapped, even lengths mapped); remote lists with <=2 per-range lists x peers; "
        "all sets of <=3 name rules. Each is concretised under 3 (quick) / 4 profiles onto real prefixes, written as YAML, parsed by the "
        "real constructors and queried for every abstract address x 3 host-bit fills; distinct = (vector, profile). "
        "T: seeded random full-width lists judged by TLC (Trace_AllowList)")
ASSUMPTIONS = [
    "a family for which nothing is configured and a list without name rules are not compared (the statement is silent; the code allows)",
    "an absent (global or range) list restricts nothing",
    "ranges of one configuration are disjoint (the statement does not say which of two nested ranges applies)",
    "'IPv4-mapped addresses are treated as IPv4' is read over the configured keys (::ffff:a.b.c.d/96+n denotes a.b.c.d/n), "
    "which is what the quantifier lists; queried addresses reach the methods unmapped at every call site, the answer for a "
    "mapped query address is recorded as an observation only",
    "keys are canonical (host bits zero) and no two keys of a list denote the same prefix",
]


def run(ctx):
    cfg = open(ctx.spec_dir() + '/Vec_AllowList.cfg').read()
    if not ctx.quick:
        cfg = cfg.replace('W = 2', 'W = 3').replace('Thorough = FALSE', 'Thorough = TRUE')
    n = ctx.tlc_vectors('AllowList', 'Vec_AllowList_run.cfg', cfgtext=cfg, timeout=1500)
    ctx.extra['vectors'] = n
    res = ctx.gotest('.', 'TestVerif_C38')
    ctx.take_mismatches(res)
    ctx.traces += (3 if ctx.quick else 4) * n
    ctx.extra.update(res.get('extra') or {})
    obs = {}
    with open(os.path.join(res['_outdir'], 'obs.ndjson')) as f, open(os.path.join(ctx.spec_dir(), 'obs.ndjson'), 'w') as g:
        for line in f:
            o = json.loads(line)
            obs[o['k']] = {'yaml': o.pop('yaml'), 'usage': o.pop('usage'), 'queries': o.pop('queries'), 'got': o['got'],
                           'refused': o['refused'], 'mapped': any(e['form'] == 'mapped' for e in o['list'])}
            g.write(json.dumps(o, separators=(',', ':')) + '\n')
    m = ctx.tlc_vectors('Trace_AllowList', 'Trace_AllowList.cfg', out='verdicts.ndjson', sample=1, timeout=1200)
    if m != len(obs):
        from tools.check import MachineryError
        raise MachineryError('Trace_AllowList judged %d of %d observations' % (m, len(obs)))
    ctx.traces += m
    with open(os.path.join(ctx.scratch, 'verdicts.ndjson')) as f:
        for line in f:
            v = json.loads(line)['exp']
            o = obs[v['k']]
            pfx = 'mapped-key:' if o['mapped'] else ''
            if not v['refusal']:
                ctx.violation(pfx + 'random:refusal', '%s list refused=%s, specification disagrees:\n%s' % (o['usage'], o['refused'], o['yaml']), o)
            for i in v['bad']:
                ctx.violation(pfx + 'random:answer', '%s list answers %s for %s, specification %s:\n%s'
                              % (o['usage'], o['got'][i - 1], o['queries'][i - 1], v['want'][i - 1], o['yaml']), o)
    ctx.require_actions('list:explicit-match', 'list:implicit-default', 'list:refused', 'ranges:Allow', 'ranges:AllowAll',
                        'ranges:AllowUnknownVpnAddr', 'ranges:refused', 'names:match', 'names:default', 'names:refused',
                        'T:remote', 'T:local')


META = {
    'category': 'model_checking',
    'technique': 'TLA+ function specification AllowList.tla (longest matching prefix, implicit default, refusal, range lists, '
                 'mapped keys, name rules) with a prefix-table machine linked by TLC; vectors concretised as YAML on the real '
                 'constructors; random full-width lists judged by TLC',
    'text': 'Allow(list,a) = value at the most specific matching prefix, else the opposite of the family\'s uniform value; mixed '
            'values without a default are refused; the list of the overlay range holding the peer is conjoined with the global '
            'one; ::ffff:a.b.c.d/(96+n) keys denote a.b.c.d/n; name rules share one value and default to its opposite. TLC '
            'checks the table-with-implicit-defaults machine against this on every vector and emits the expected answers.',
    'design_ref': '3.6 C38',
}
