"""C14 — unauthenticated packets have no effect (spec/RxPipeline.tla, whole nodes)."""
import os

RULE = ("V: RxPipeline.tla enumerates genuine packets of 7 kinds (data, test request/reply, close, lighthouse, control, "
        "relayed) with up to 2 (thorough 3) of 8 fields altered (version, type, reserved, index, counter, body, tag, source); "
        "TLC checks that only an unaltered packet reaches 'effect'. Each vector is applied to real captured bytes and injected "
        "into a complete node in a synctest bubble; the node's whole projection, tun output and emissions are compared before/"
        "after; run with accept_recv_error always and never; distinct = vectors")
ASSUMPTIONS = [
    "node state = hostmap, tunnel records (remote, liveness flags, roam record, replay window top, counters, relay state), "
    "pending handshakes and the lighthouse cache; metrics are allowed to change; before every vector the harness reads and clears "
    "the tunnels' traffic marks exactly as the connection manager does when its timer fires (hostinfo.in/out Swap(false)), so "
    "that a liveness update caused by the packet under test shows in the projection",
    "a recv_error reply to an unknown index is allowed (it changes no state)",
    "alterations are applied to the outer datagram; for relayed packets that is the relay hop's packet (a relay that re-signs is C15)",
]


def one_pass(ctx, accept):
    cfg = open(os.path.join(ctx.spec_dir(), 'Vec_RxPipeline.cfg')).read()
    cfg = cfg.replace('AcceptRecvError = TRUE', 'AcceptRecvError = %s' % ('TRUE' if accept != 'never' else 'FALSE'))
    if not ctx.quick:
        cfg = cfg.replace('MaxMut = 2', 'MaxMut = 3')
    n = ctx.tlc_vectors('RxPipeline', 'Vec_RxPipeline_%s.cfg' % accept, cfgtext=cfg, out='vectors.ndjson')
    res = ctx.gotest('e2e', 'TestVerif_C14', tags='verif e2e_testing', also=('net',), timeout=600 if ctx.quick else 2400,
                     env={'VERIF_C14_ACCEPT_RECV_ERROR': accept}, name='c14_' + accept)
    ctx.traces += res.get('evaluations', 0)
    return res


def run(ctx):
    res = one_pass(ctx, 'always')
    ctx.take_mismatches(res)
    res2 = one_pass(ctx, 'never')
    for m in res2.get('mismatches') or []:
        ctx.violation('never:' + m['key'], 'with accept_recv_error: never: ' + m['what'], m.get('detail'))
    acts = res.get('actions', {})
    missing = [k for k in ('data', 'testreq', 'testreply', 'close', 'lighthouse', 'control', 'relayed') if not acts.get('captured:' + k)]
    if missing:
        from tools.check import MachineryError
        raise MachineryError('no genuine packet captured for kinds %s' % missing)
    ctx.require_actions('exp:none', 'exp:recverr-reply', 'exp:hs-refused', 'genuine-acted:data', 'genuine-acted:close', 'liveness-marks-cleared')


META = {
    'category': 'model_checking',
    'technique': 'TLA+ spec RxPipeline.tla (receive pipeline stage by stage, symbolic AEAD) enumerated by TLC over the alteration '
                 'lattice; every vector applied to real captured packets of every message type and injected into a complete node '
                 'in a synctest bubble, whole-node projection compared before/after',
    'text': 'TLC checks on the lattice that only an unaltered packet is acted on and that the only state change an altered one can '
            'cause is the named recv_error deviation; every vector is executed on a real node with genuine ciphertexts of all seven '
            'kinds (also from a spoofed and an in-overlay source) and any change of hostmap, tunnel liveness/roaming/window, '
            'lighthouse cache, tun output or an answer other than recv_error is a violation.',
    'design_ref': '3.4 C14',
    'note': 'Known finding (by design, configurable): an unencrypted recv_error from the tunnel\'s underlay address closes the tunnel '
            '(key recv_error-teardown); with accept_recv_error: never the same vectors must be inert.',
}
