"""C45 — SSH debug file paths stay inside the sandbox (spec/SshPath.tla, vector mode + observations)."""
import json, os

RULE = ("V: every (sandbox, path) of SshPath.tla's lattice is one TLC state: 11 sandbox directories (named absolute/relative, "
        "trailing separator, nested, not clean, root, '.', '..') x all absolute and relative paths of <= MaxLen components "
        "over {'..', '.', '', a, b} (MaxLen 4 quick / 5 thorough); each is written out under 3-4 spellings of the names "
        "(s/sx siblings both ways, s/t, a realistic name) and run through the real sshSanitizeFilePath; distinct = "
        "(sandbox string, path string). T: seeded random concrete strings judged by TLC (Trace_SshPath). Call sites: start-cpu-profile / save-heap-profile / save-mutex-profile run with real directories (working directory "
        "different from the sandbox) and 8 kinds of argument: every file that exists afterwards lies strictly inside the sandbox")
ASSUMPTIONS = [
    "'accepted ... strictly inside, and every other path is refused' is read as: refused unless strictly inside (always), and "
    "accepted when strictly inside for every sandbox directory that has a name; for the nameless sandboxes '/', '.', '..' "
    "only the safety direction is required and refusals of inside paths are recorded as observations",
    "an absolute path is never inside a relative sandbox and vice versa (not decidable lexically, refusing is the safe answer)",
    "the returned path must clean (filepath.Clean) to the resolved location; its spelling is free",
    "an empty sandbox setting means 'no sandbox configured' and is outside the statement",
]


def run(ctx):
    cfg = open(ctx.spec_dir() + '/Vec_SshPath.cfg').read()
    if not ctx.quick:
        cfg = cfg.replace('MaxLen = 4', 'MaxLen = 5')
    n = ctx.tlc_vectors('SshPath', 'Vec_SshPath_run.cfg', cfgtext=cfg, timeout=1500)
    ctx.extra['vectors'] = n
    res = ctx.gotest('.', 'TestVerif_C45')
    ctx.take_mismatches(res)
    ctx.traces += (3 if ctx.quick else 4) * n
    ctx.extra.update(res.get('extra') or {})
    obs = {}
    with open(os.path.join(res['_outdir'], 'obs.ndjson')) as f, open(os.path.join(ctx.spec_dir(), 'obs.ndjson'), 'w') as g:
        for line in f:
            o = json.loads(line)
            obs[o['k']] = {x: o.pop(x) for x in ('sandbox', 'path', 'returned', 'class')}
            obs[o['k']]['accepted'] = o['accepted']
            g.write(json.dumps(o, separators=(',', ':')) + '\n')
    m = ctx.tlc_vectors('Trace_SshPath', 'Trace_SshPath.cfg', out='verdicts.ndjson', sample=1, timeout=1200)
    if m != len(obs):
        from tools.check import MachineryError
        raise MachineryError('Trace_SshPath judged %d of %d observations' % (m, len(obs)))
    ctx.traces += m
    musts = {}
    with open(os.path.join(ctx.scratch, 'verdicts.ndjson')) as f:
        for line in f:
            v = json.loads(line)['exp']
            o = obs[v['k']]
            musts[v['must']] = musts.get(v['must'], 0) + 1
            if not v['ok']:
                kind = 'unsafe-accept' if v['must'] == 'refuse' else ('refuses-inside' if not o['accepted'] else 'wrong-location')
                ctx.violation('random:%s:%s' % (kind, o['class']),
                              'sshSanitizeFilePath(%r, %r): accepted=%s returned %r; specification: %s'
                              % (o['sandbox'], o['path'], o['accepted'], o['returned'], v['must']), o)
    ctx.extra['random_required'] = musts
    if not musts.get('accept') or not musts.get('refuse'):
        from tools.check import MachineryError
        raise MachineryError('vacuous random driver: %s' % musts)
    # call sites: the commands that write a file, with real directories (working directory != sandbox)
    res2 = ctx.gotest('.', 'TestVerif_C45Cmd', name='cmd')
    ctx.take_mismatches(res2)
    ctx.traces += res2.get('evaluations', 0)
    if not ctx.violations:
        ctx.require_actions('cmd:start-cpu-profile', 'cmd:save-heap-profile', 'cmd:save-mutex-profile', 'created-inside', 'refused-outside',
                            'path:relative', 'path:absolute-inside', 'path:relative-escape', 'path:absolute-outside')
    ctx.require_actions('accept:absolute-sandbox', 'refuse:absolute-sandbox', 'accept:relative-sandbox', 'refuse:relative-sandbox',
                        'refuse:root-sandbox', 'free:root-sandbox', 'refuse:dotdot-sandbox', 'T:absolute-sandbox')


META = {
    'category': 'model_checking',
    'technique': 'TLA+ function specification SshPath.tla (lexical clean, resolution against the sandbox, strict containment) with '
                 'the string-prefix machine of the code linked by TLC; vectors written out as path strings on the real '
                 'sshSanitizeFilePath; random concrete strings judged by TLC',
    'text': 'Paths are component sequences; Loc = lexical clean; a relative path resolves against the sandbox; Inside = proper '
            'extension of the sandbox location by names. TLC proves that the code\'s "cleaned string has prefix sandbox+separator" '
            'machine decides exactly Inside for every sandbox with a name (siblings /s vs /sx included) and shows where it does '
            'not for nameless ones; every vector is executed on the real function.',
    'design_ref': '3.10 C45',
}
