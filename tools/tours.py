"""Turn a `tlc -dump dot,actionlabels` state graph into behaviours that cover every edge.

graph JSON written for the Go harnesses:
  {"states":[{var: value, ...}, ...],          index = state number
   "init":[state numbers],
   "edges":[[src, dst, "Action", [args...]], ...],
   "tours":[[edge numbers ...], ...]}          every tour starts in an initial state; the union of
                                               the tours contains every edge at least once
"""
import re, json, sys, collections
from . import tlaval

_node = re.compile(r'^(-?\d+) \[label="((?:[^"\\]|\\.)*)"(.*)\]\s*;?\s*$')
_edge = re.compile(r'^(-?\d+) -> (-?\d+) \[label="((?:[^"\\]|\\.)*)"')


def _unesc(s):
    return s.replace('\\n', '\n').replace('\\"', '"').replace('\\\\', '\\')


def parse_label(lbl):
    lbl = lbl.strip()
    m = re.match(r'^([A-Za-z_][A-Za-z0-9_]*)\s*(?:\((.*)\))?$', lbl, re.S)
    if not m:
        return lbl, []
    args = []
    if m.group(2) is not None and m.group(2).strip() != '':
        args = tlaval.parse('<<' + m.group(2) + '>>')
    return m.group(1), args


def load_dot(path, keep_vars=None):
    ids = {}
    states = []
    init = []
    edges = []
    seen_edges = set()

    def nid(x):
        if x not in ids:
            ids[x] = len(states)
            states.append(None)
        return ids[x]

    with open(path) as f:
        for line in f:
            m = _edge.match(line)
            if m:
                s, d = nid(m.group(1)), nid(m.group(2))
                lbl = _unesc(m.group(3))
                key = (s, d, lbl)
                if key in seen_edges:
                    continue
                seen_edges.add(key)
                name, args = parse_label(lbl)
                edges.append([s, d, name, args])
                continue
            m = _node.match(line)
            if m:
                n = nid(m.group(1))
                states[n] = tlaval.parse_state(_unesc(m.group(2)))
                if 'style = filled' in m.group(3):
                    init.append(n)
    # TLC with several workers writes nodes and edges in a run-dependent order: canonicalise
    order = sorted(range(len(states)), key=lambda i: json.dumps(states[i], sort_keys=True, default=str))
    rank = {old: new for new, old in enumerate(order)}
    states = [states[i] for i in order]
    if keep_vars:
        states = [{k: v for k, v in st.items() if k in keep_vars} for st in states]
    init = sorted(rank[i] for i in init)
    edges = sorted(([rank[e[0]], rank[e[1]], e[2], e[3]] for e in edges), key=lambda e: (e[0], e[2], json.dumps(e[3], default=str), e[1]))
    return states, init, edges


def make_tours(states, init, edges, max_len=40, limit_edges=None, rnd=None):
    out = collections.defaultdict(list)
    for ei, e in enumerate(edges):
        out[e[0]].append(ei)
    # BFS tree from the initial states
    parent = {}
    dq = collections.deque()
    for s in init:
        parent[s] = None
        dq.append(s)
    while dq:
        u = dq.popleft()
        for ei in out[u]:
            v = edges[ei][1]
            if v not in parent:
                parent[v] = ei
                dq.append(v)

    def path_to(u):
        p = []
        while parent[u] is not None:
            ei = parent[u]
            p.append(ei)
            u = edges[ei][0]
        p.reverse()
        return p

    todo = list(range(len(edges)))
    if rnd is not None:
        rnd.shuffle(todo)
    if limit_edges is not None and len(todo) > limit_edges:
        todo = todo[:limit_edges]
    want = set(todo)
    covered = set()
    tours = []
    for ei in todo:
        if ei in covered:
            continue
        u = edges[ei][0]
        if u not in parent:
            continue
        tour = path_to(u)
        covered.update(tour)
        tour.append(ei)
        covered.add(ei)
        cur = edges[ei][1]
        while len(tour) < max_len:
            nxt = None
            for ej in out[cur]:
                if ej not in covered and ej in want:
                    nxt = ej
                    break
            if nxt is None:
                break
            tour.append(nxt)
            covered.add(nxt)
            cur = edges[nxt][1]
        tours.append(tour)
    return tours, len(covered & want)


def all_paths(states, init, edges, limit=20000, rnd=None):
    """All maximal paths of an acyclic state graph (complete behaviours), as edge-number lists.
    If there are more than `limit`, a random sample of `limit` maximal paths is returned (plus the exact total)."""
    import random
    out = collections.defaultdict(list)
    for ei, e in enumerate(edges):
        if e[0] != e[1]:
            out[e[0]].append(ei)
    memo = {}

    def count(u):
        if u in memo:
            return memo[u]
        memo[u] = -1  # cycle guard
        if not out[u]:
            memo[u] = 1
            return 1
        c = 0
        for ei in out[u]:
            k = count(edges[ei][1])
            if k < 0:
                raise ValueError('state graph has a cycle')
            c += k
        memo[u] = c
        return c
    sys.setrecursionlimit(100000)
    total = sum(count(s) for s in init)
    paths = []
    if total <= limit:
        def dfs(u, acc):
            if not out[u]:
                paths.append(list(acc))
                return
            for ei in out[u]:
                acc.append(ei)
                dfs(edges[ei][1], acc)
                acc.pop()
        for s in init:
            dfs(s, [])
    else:
        rnd = rnd or random.Random(0)
        seen = set()
        tries = 0
        while len(paths) < limit and tries < limit * 5:
            tries += 1
            # uniform sampling over maximal paths using the path counts
            r = rnd.randrange(total)
            u = None
            for s in init:
                if r < memo[s]:
                    u = s
                    break
                r -= memo[s]
            p = []
            while out[u]:
                for ei in out[u]:
                    k = memo[edges[ei][1]]
                    if r < k:
                        p.append(ei)
                        u = edges[ei][1]
                        break
                    r -= k
            t = tuple(p)
            if t not in seen:
                seen.add(t)
                paths.append(p)
    return paths, total


def build_paths(dot_path, out_path, limit=20000, rnd=None, keep_vars=None):
    states, init, edges = load_dot(dot_path, keep_vars)
    paths, total = all_paths(states, init, edges, limit, rnd)
    with open(out_path, 'w') as f:
        json.dump({"states": states, "init": init, "edges": edges, "tours": paths}, f)
    return {"states": len(states), "edges": len(edges), "paths_total": total, "paths": len(paths),
            "exhaustive": total == len(paths), "steps": sum(len(t) for t in paths)}


def build(dot_path, out_path, max_len=40, limit_edges=None, rnd=None, keep_vars=None):
    states, init, edges = load_dot(dot_path, keep_vars)
    tours, ncov = make_tours(states, init, edges, max_len, limit_edges, rnd)
    with open(out_path, 'w') as f:
        json.dump({"states": states, "init": init, "edges": edges, "tours": tours}, f)
    return {"states": len(states), "edges": len(edges), "tours": len(tours), "edges_covered": ncov,
            "steps": sum(len(t) for t in tours)}


if __name__ == '__main__':
    print(build(sys.argv[1], sys.argv[2]))
