#!/usr/bin/env python3
"""Regenerate MANIFEST.json from tools/props/*.py (META) and tools/not_applicable.json."""
import os, json, importlib, sys
ROOT = os.path.dirname(os.path.dirname(os.path.abspath(__file__)))
sys.path.insert(0, ROOT)


def main():
    props = [json.loads(l) for l in open(os.path.join(ROOT, 'properties.jsonl'))]
    na = json.load(open(os.path.join(ROOT, 'tools', 'not_applicable.json')))
    na.update(json.load(open(os.path.join(ROOT, 'tools', 'pending.json'))))
    hooks = json.load(open(os.path.join(ROOT, 'tools', 'hooks.json')))
    checks, notapp, engines = [], [], {}
    for p in props:
        pid = p['id']
        path = os.path.join(ROOT, 'tools', 'props', pid + '.py')
        if os.path.exists(path) and pid not in na:
            mod = importlib.import_module('tools.props.' + pid)
            m = mod.META
            c = {
                'property_id': pid,
                'quick_cmd': 'bin/check %s quick' % pid,
                'thorough_cmd': 'bin/check %s thorough' % pid,
                'evidence_file': '/verif/evidence/%s.json' % pid,
                'replay_cmd_template': 'bin/check %s quick --replay {path}' % pid,
                'engine': 'tla-conformance',
                'level_claimed': {'category': m['category'], 'text': m['text'], 'design_ref': m['design_ref']},
                'level_note': m.get('note') or ('Trusts TLC and the harness projection; assumptions: ' + '; '.join(getattr(mod, 'ASSUMPTIONS', [])[:3]))[:600],
                'technique': m['technique'],
            }
            checks.append(c)
        else:
            notapp.append({'property_id': pid, 'reason': na.get(pid, 'no check registered yet: the specification module and harness for this property are not built (see DESIGN.md section 3 for the plan)')})
    man = {
        'version': 1,
        'setup_cmd': 'bin/setup',
        'hooks': hooks,
        'engines': [{'name': 'tla-conformance', 'path': 'bin/check',
                     'serves_properties': [c['property_id'] for c in checks],
                     'kind_free_text': 'explicit TLA+ specifications (spec/*.tla) checked with TLC; bound to the Go code by replaying '
                                       'TLC behaviours/vectors into the real code and validating recorded traces of the real code with TLC'}],
        'checks': checks,
        'not_applicable': notapp,
        'notes': 'bin/check <ID> <tier> [--replay file]; exit 0 held / 1 VIOLATION / 2 machinery could not decide. '
                 'Known findings: known_findings.jsonl. Design: DESIGN.md.',
    }
    with open(os.path.join(ROOT, 'MANIFEST.json'), 'w') as f:
        json.dump(man, f, indent=1)
    print('checks:', len(checks), 'not_applicable:', len(notapp))


if __name__ == '__main__':
    main()
