"""Warm the Go build cache: compile every harness package's test binary once (with the overlay)."""
import os, subprocess, sys
from tools.check import Ctx, ROOT, REPO

def main():
    ctx = Ctx('warm', 'quick', 0)
    try:
        hroot = os.path.join(ROOT, 'harness')
        pkgs = []
        for dp, dn, fn in os.walk(hroot):
            rel = os.path.relpath(dp, hroot)
            if rel.startswith('common') or '_extra' in rel:
                continue
            if any(f.endswith('_test.go') for f in fn):
                pkgs.append('.' if rel == '_root' else rel)
        for pkg in pkgs:
            ov = ctx.overlay(pkg)
            e = dict(os.environ, GOFLAGS='-mod=mod', GOPROXY='off')
            e.pop('GOSUMDB', None)
            e['GOTOOLCHAIN'] = 'auto'
            tags = 'verif'
            p = subprocess.run(['go', 'test', '-overlay', ov, '-tags', tags, '-run', '^$', '-count=1', '.'],
                               cwd=os.path.join(REPO, pkg), env=e, stdout=subprocess.PIPE, stderr=subprocess.STDOUT, text=True)
            print(pkg, 'rc=%d' % p.returncode, p.stdout.strip()[-200:])
    finally:
        ctx.cleanup()

if __name__ == '__main__':
    main()
